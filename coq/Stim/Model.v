(* Model of the waveform generators of psiaudio/stim.py (C01, C09).  Definitions only.

   Sample values are symbolic recipes: a sample is the list of multiplicative factors the code
   applied, outermost first, ending in a base value.  The harness evaluates a recipe with the
   implementation's own elementary functions (one-shot carrier, scipy window, one-shot lfilter)
   and compares with what the chunked implementation returned.

   factor (tag, a, b):
     (0,_,_)      exact zero  (token[:lb] = 0, np.zeros, zero padding)
     (1,cid,p)    carrier cid at absolute index p   (tone / SAM tone / silence / noise stream)
     (2,nid,j)    ramp[j] of envelope node nid (the window of length 2*rise)
     (3,_,_)      exact one   (np.ones: plateau, SAM delay)
     (4,nid,k)    SAM envelope formula of node nid at time index k  (t = k/fs)
     (5,nid,0)    constant of node nid (square wave level; 1-depth of the square-wave envelope)
     (6,nid,j)    tukey_env[j] of square-wave-envelope node nid
     (7,wid,p)    fixed waveform wid, element p
     (8,fid,p)    p-th output of stateful filter fid run over its whole input stream *)
From PV Require Export Common.PySlice.
From Coq Require Export QArith Qround.
Open Scope Z_scope.

Definition factor := (Z * Z * Z)%type.
Definition sample := list factor.
Definition fzero : factor := (0, 0, 0).
Definition fone : factor := (3, 0, 0).
Definition szero : sample := [fzero].

(* ------------------------------------------------------------------ *)
(* stim.envelope: the five-segment fragment arithmetic (lines 277-305) *)
Definition get_i (offset i_start : Z) : Z := Z.max (offset - i_start) 0.
(* np.clip(a, lo, hi) = minimum(maximum(a, lo), hi) *)
Definition np_clip (a lo hi : Z) : Z := Z.min (Z.max a lo) hi.
Definition get_n (i_max offset i_start max_n : Z) : Z :=
  np_clip (i_max - (offset - i_start)) 0 (Z.min i_max max_n).

Definition zrepeat {A} (x : A) (n : Z) : list A := repeat x (Z.to_nat n).

(* i_env_lb = elb, i_duration = dur, i_rise_time = rise; returns None where the code raises ValueError *)
Definition envelope_frag (nid elb dur rise offset samples : Z) : option (list factor) :=
  if dur <? rise * 2 then None else
  let ramp := zrange (fun j => (2, nid, j)) 0 (2 * rise) in
  let i_env_ub := elb + dur in
  let n_ss_max := dur - 2 * rise in
  let n_null_pre := get_n elb offset 0 samples in
  let s1 := samples - n_null_pre in
  let i_onset := get_i offset elb in
  let n_onset := get_n rise offset elb s1 in
  let s2 := s1 - n_onset in
  let n_ss := get_n n_ss_max offset (elb + rise) s2 in
  let s3 := s2 - n_ss in
  let i_offset := get_i offset (i_env_ub - rise) in
  let n_offset := get_n rise offset (i_env_ub - rise) s3 in
  let s4 := s3 - n_offset in
  Some (zrepeat fzero n_null_pre
        ++ py_slice (Some i_onset) (Some (i_onset + n_onset)) ramp
        ++ zrepeat fone n_ss
        ++ py_slice (Some (rise + i_offset)) (Some (rise + i_offset + n_offset)) ramp
        ++ zrepeat fzero s4).

(* the whole envelope at absolute index p *)
Definition env_at (nid elb dur rise p : Z) : factor :=
  if p <? elb then fzero
  else if p <? elb + rise then (2, nid, p - elb)
  else if p <? elb + dur - rise then fone
  else if p <? elb + dur then (2, nid, rise + (p - (elb + dur - rise)))
  else fzero.

(* ------------------------------------------------------------------ *)
(* _sam_envelope (lines 371-385).  D = int(delay*fs).
   repaired:   sam_offset = offset + delay_n - D      unrepaired:  sam_offset = offset - delay_n *)
Definition sam_frag (repaired : bool) (nid D offset samples : Z) : list factor :=
  let delay_n := np_clip (D - offset) 0 samples in
  let sam_n := samples - delay_n in
  let sam_offset := if repaired then offset + delay_n - D else offset - delay_n in
  zrepeat fone delay_n ++ zrange (fun k => (4, nid, k)) sam_offset sam_n.
Definition sam_at (nid D p : Z) : factor := if p <? D then fone else (4, nid, p - D).

(* ------------------------------------------------------------------ *)
(* SquareWaveFactory.next (lines 1174-1180).
   unrepaired: o = offset % cycle; while o < samples: w[o:o+on] = sf; o += cycle   (offset never advanced)
   repaired:   o = -(offset % cycle); while o < samples: w[max(o,0):max(o+on,0)] = sf; o += cycle; offset += samples *)
Fixpoint sq_loop (fuel : nat) (repaired : bool) (nid cycle on samples o : Z) (w : list sample) : list sample :=
  match fuel with
  | O => w
  | S f =>
    if o <? samples then
      let w' := if repaired
                then py_set_const (Some (Z.max o 0)) (Some (Z.max (o + on) 0)) [(5, nid, 0)] w
                else py_set_const (Some o) (Some (o + on)) [(5, nid, 0)] w in
      sq_loop f repaired nid cycle on samples (o + cycle) w'
    else w
  end.
Definition square_frag (repaired : bool) (nid cycle on offset samples : Z) : list sample :=
  let o := if repaired then - (offset mod cycle) else offset mod cycle in
  sq_loop (Z.to_nat samples + 2) repaired nid cycle on samples o (zrepeat szero samples).
Definition square_at (nid cycle on p : Z) : sample :=
  if p mod cycle <? on then [(5, nid, 0)] else szero.

(* ------------------------------------------------------------------ *)
(* square_wave envelope (lines 430-481); P = fs/fm as an exact rational, duty = duty_samples.
   np.round is round-half-even (unrepaired); the repair uses floor(x + 1/2). *)
Definition round_half_even (q : Q) : Z :=
  let f := Qfloor q in
  let r := (q - inject_Z f)%Q in
  match (r ?= 1 # 2)%Q with
  | Lt => f
  | Gt => f + 1
  | Eq => if Z.even f then f else f + 1
  end.
Definition round_half_up (q : Q) : Z := Qfloor (q + (1 # 2))%Q.

Definition set_range {A} (lo : Z) (vals : list A) (l : list A) : list A :=
  (* l[lo:lo+len vals] = vals, lo >= 0 and lo + len vals <= len l *)
  firstn (Z.to_nat lo) l ++ vals ++ skipn (Z.to_nat lo + length vals) l.

Fixpoint sqenv_loop (fuel : nat) (repaired : bool) (nid : Z) (P : Q) (duty samples : Z)
         (fm_start : Q) (env : list factor) : list factor :=
  match fuel with
  | O => env
  | S f =>
    let tuk := zrange (fun j => (6, nid, j)) 0 duty in
    let s := if repaired then round_half_up fm_start else round_half_even fm_start in
    let env' :=
      if s <? 0 then
        let n_remaining := duty + s in
        if n_remaining >? 0 then
          let i := np_clip n_remaining 0 samples in
          set_range 0 (py_slice None (Some i) (py_slice (Some (- n_remaining)) None tuk)) env
        else env
      else
        let lb := np_clip s 0 samples in
        let ub := np_clip (s + duty) 0 samples in
        set_range lb (py_slice None (Some (ub - lb)) tuk) env in
    let fm_start' := (fm_start + P)%Q in
    if Qlt_le_dec (inject_Z samples) fm_start' then env'
    else sqenv_loop f repaired nid P duty samples fm_start' env'
  end.
Definition sqenv_frag (repaired : bool) (nid : Z) (P : Q) (duty offset samples : Z) : list factor :=
  let k := Qfloor (inject_Z offset / P)%Q in           (* offset // fm_samples *)
  let fm_start := (P * inject_Z k - inject_Z offset)%Q in
  sqenv_loop (Z.to_nat samples + 2) repaired nid P duty samples fm_start
             (zrepeat (5, nid, 0) samples).
(* the whole square-wave envelope at absolute index p: on-period k starts at round(k*P) *)
Definition sqenv_at (nid : Z) (P : Q) (duty p : Z) : factor :=
  let k := Qfloor (inject_Z p / P)%Q in
  let sk := round_half_up (P * inject_Z k)%Q in
  let sk1 := round_half_up (P * inject_Z (k + 1))%Q in
  let skm := round_half_up (P * inject_Z (k - 1))%Q in
  if (sk1 <=? p) && (p <? sk1 + duty) then (6, nid, p - sk1)      (* next period already started (rounding) *)
  else if (sk <=? p) && (p <? sk + duty) then (6, nid, p - sk)
  else if (0 <=? k - 1) && (skm <=? p) && (p <? skm + duty) then (6, nid, p - skm)
  else (5, nid, 0).

(* ------------------------------------------------------------------ *)
(* generator expressions = the class graph *)
Inductive gen :=
| GCar (cid : Z)                               (* Tone/SAMTone/Silence/noise factories: per-index or stream carriers *)
| GSquare (nid cycle on : Z)                   (* SquareWaveFactory *)
| GFixed (wid len : Z)                         (* FixedWaveform over an array of len samples *)
| GGate (start dur : Z) (g : gen)              (* GateFactory *)
| GEnv (nid start dur rise : Z) (g : gen)      (* EnvelopeFactory / Cos2EnvelopeFactory *)
| GSam (nid D : Z) (g : gen)                   (* SAMEnvelopeFactory *)
| GSqEnv (nid : Z) (P : Q) (duty : Z) (g : gen) (* SquareWaveEnvelopeFactory *)
| GFilt (fid : Z) (g : gen)                    (* NotchFilterFactory (stateful lfilter) *)
| GRepeat (n skip period sdelay : Z) (g : gen). (* RepeatFactory *)

(* object state: one offset per node, exactly as the objects have *)
Inductive gst :=
| SLeaf (offset : Z)
| SNode (offset : Z) (inner : gst)
| SRep (offset : Z) (wave : list sample) (inner : gst).

Definition st_offset (s : gst) : Z :=
  match s with SLeaf o | SNode o _ | SRep o _ _ => o end.

(* which repairs are in force (all true = current /repo) *)
Record repairs := { r_gate : bool; r_sam : bool; r_square : bool; r_sqenv : bool }.
Definition all_repaired : repairs := {| r_gate := true; r_sam := true; r_square := true; r_sqenv := true |}.
Definition none_repaired : repairs := {| r_gate := false; r_sam := false; r_square := false; r_sqenv := false |}.

Definition map2_mul (env : list factor) (tok : list sample) : option (list sample) :=
  if (length env =? length tok)%nat then Some (map (fun p => fst p :: snd p) (combine env tok)) else None.

(* FixedWaveform.next on a concrete recipe array *)
Definition fixed_next (wave : list sample) (offset samples : Z) : list sample :=
  let w := py_slice (Some offset) (Some (offset + samples)) wave in
  let got := zlen w in
  if got <? samples then w ++ zrepeat szero (samples - got) else w.

(* n_samples_remaining(); None = infinite (np.inf) *)
Fixpoint remaining (g : gen) (s : gst) : option Z :=
  match g, s with
  | GCar _, _ => None
  | GSquare _ _ _, _ => None
  | GFixed _ len, _ => Some (Z.max (len - st_offset s) 0)
  | GGate start dur _, _ => Some (Z.max (start + dur - st_offset s) 0)
  | GEnv _ start dur _ _, _ => Some (Z.max (start + dur - st_offset s) 0)
  | GSam _ _ g', SNode _ i => remaining g' i
  | GSqEnv _ _ _ g', SNode _ i => remaining g' i
  | GFilt _ g', SNode _ i => remaining g' i
  | GRepeat _ _ _ _ _, SRep o w _ => Some (Z.max (zlen w - o) 0)
  | _, _ => None
  end.

(* is_complete() *)
Fixpoint complete (g : gen) (s : gst) : bool :=
  match g, s with
  | GCar _, _ => false
  | GSquare _ _ _, _ => false
  | GFixed _ len, _ => st_offset s >=? len
  | GGate start dur _, _ => st_offset s >=? start + dur
  | GEnv _ start dur _ _, _ => st_offset s >=? start + dur
  | GSam _ _ g', SNode _ i => complete g' i
  | GSqEnv _ _ _ g', SNode _ i => complete g' i
  | GFilt _ g', SNode _ i => complete g' i
  | GRepeat _ _ _ _ _, SRep o w _ => o >=? zlen w
  | _, _ => false
  end.

(* n_samples(); None = the call raises / is infinite *)
Definition n_samples (g : gen) (s : gst) : option Z :=
  match g, s with
  | GFixed _ len, _ => Some len
  | GGate start dur _, _ => Some (start + dur)
  | GEnv _ start dur _ _, _ => Some (start + dur)
  | GRepeat _ _ _ _ _, SRep _ w _ => Some (zlen w)
  | _, _ => None
  end.

(* next(samples): None = the code raises *)
Fixpoint gnext (R : repairs) (g : gen) (s : gst) (samples : Z) : option (gst * list sample) :=
  match g, s with
  | GCar cid, SLeaf o =>
    Some (SLeaf (o + samples), zrange (fun p => [(1, cid, p)]) o samples)
  | GSquare nid cycle on, SLeaf o =>
    Some (SLeaf (if r_square R then o + samples else o),
          square_frag (r_square R) nid cycle on o samples)
  | GFixed wid len, SLeaf o =>
    Some (SLeaf (o + samples),
          fixed_next (zrange (fun p => [(7, wid, p)]) 0 len) o samples)
  | GGate start dur g', SNode o i =>
    match gnext R g' i samples with
    | None => None
    | Some (i', tok) =>
      let lb := start - o in
      let ub := lb + dur in
      let tok1 := if lb >=? 0 then py_set_const None (Some lb) szero tok else tok in
      let tok2 := if r_gate R then py_set_const (Some (Z.max ub 0)) None szero tok1
                  else if ub >? 0 then py_set_const (Some ub) None szero tok1 else tok1 in
      Some (SNode (o + samples) i', tok2)
    end
  | GEnv nid start dur rise g', SNode o i =>
    match gnext R g' i samples with
    | None => None
    | Some (i', tok) =>
      match envelope_frag nid start dur rise o samples with
      | None => None
      | Some env =>
        match map2_mul env tok with
        | None => None
        | Some w => Some (SNode (o + samples) i', w)
        end
      end
    end
  | GSam nid D g', SNode o i =>
    match gnext R g' i samples with
    | None => None
    | Some (i', tok) =>
      let n := zlen tok in
      match map2_mul (sam_frag (r_sam R) nid D o n) tok with
      | None => None
      | Some w => Some (SNode (o + zlen w) i', w)
      end
    end
  | GSqEnv nid P duty g', SNode o i =>
    match gnext R g' i samples with
    | None => None
    | Some (i', tok) =>
      let n := zlen tok in
      match map2_mul (sqenv_frag (r_sqenv R) nid P duty o n) tok with
      | None => None
      | Some w => Some (SNode (o + zlen w) i', w)
      end
    end
  | GFilt fid g', SNode o i =>
    match gnext R g' i samples with
    | None => None
    | Some (i', tok) =>
      let n := zlen tok in
      Some (SNode (o + n) i', zrange (fun p => [(8, fid, p)]) o n)
    end
  | GRepeat _ _ _ _ _, SRep o w i =>
    Some (SRep (o + samples) w i, fixed_next w o samples)
  | _, _ => None
  end.

(* repeat() (lines 1206-1221): None = ValueError *)
Definition repeat_wave (n skip period sdelay : Z) (w : list sample) : option (list sample) :=
  let lw := zlen w in
  if lw >? period - sdelay then None
  else
    let row := zrepeat szero sdelay ++ w ++ zrepeat szero (period - sdelay - lw) in
    Some (zrepeat szero (skip * period) ++ concat (zrepeat row n)).

(* reset() (also what the constructors end with): None = the code raises *)
Fixpoint greset (R : repairs) (g : gen) : option gst :=
  match g with
  | GCar _ | GSquare _ _ _ | GFixed _ _ => Some (SLeaf 0)
  | GGate _ _ g' | GEnv _ _ _ _ g' | GSam _ _ g' | GSqEnv _ _ _ g' | GFilt _ g' =>
    match greset R g' with Some i => Some (SNode 0 i) | None => None end
  | GRepeat n skip period sdelay g' =>
    match greset R g' with
    | None => None
    | Some i =>
      match remaining g' i with
      | None => None                       (* get_samples_remaining: ValueError on an infinite input *)
      | Some r =>
        match gnext R g' i r with
        | None => None
        | Some (i', w) =>
          match repeat_wave n skip period sdelay w with
          | None => None
          | Some wave => Some (SRep 0 wave i')
          end
        end
      end
    end
  end.

(* ------------------------------------------------------------------ *)
(* whole-stream denotation: the sample at absolute index p of a freshly reset generator *)
Definition total_len (R : repairs) (g : gen) : option Z :=   (* n_samples_remaining() right after reset *)
  match greset R g with Some s => remaining g s | None => None end.

Fixpoint den (g : gen) (p : Z) : sample :=
  match g with
  | GCar cid => [(1, cid, p)]
  | GSquare nid cycle on => square_at nid cycle on p
  | GFixed wid len => if p <? len then [(7, wid, p)] else szero
  | GGate start dur g' => if (start <=? p) && (p <? start + dur) then den g' p else szero
  | GEnv nid start dur rise g' => env_at nid start dur rise p :: den g' p
  | GSam nid D g' => sam_at nid D p :: den g' p
  | GSqEnv nid P duty g' => sqenv_at nid P duty p :: den g' p
  | GFilt fid _ => [(8, fid, p)]
  | GRepeat n skip period sdelay g' =>
    (* row r = p / period (rows skip..skip+n-1 carry the input's whole stream at column - sdelay) *)
    let r := p / period in
    let c := p mod period in
    let lw := match total_len all_repaired g' with Some l => l | None => 0 end in
    if (skip <=? r) && (r <? skip + n) && (sdelay <=? c) && (c <? sdelay + lw) then den g' (c - sdelay) else szero
  end.

(* ------------------------------------------------------------------ *)
(* running a history of operations and flattening everything observable to a list of Z,
   which is what the generated case files print (the harness decodes and evaluates it) *)
Inductive sop := Next (n : Z) | Reset | Query | Rest.   (* Rest = get_samples_remaining(): next(n_samples_remaining()) *)

Definition enc_opt (o : option Z) : list Z := match o with None => [0] | Some z => [1; z] end.
Definition enc_sample (s : sample) : list Z :=
  zlen s :: flat_map (fun f => match f with (t, a, b) => [t; a; b] end) s.
Definition enc_samples (l : list sample) : list Z := zlen l :: flat_map enc_sample l.

(* result codes: 1 = next ok, followed by samples; 2 = raised; 3 = reset ok; 4 = query *)
Fixpoint run_ops (R : repairs) (g : gen) (s : option gst) (ops : list sop) : list Z :=
  match ops with
  | [] => []
  | o :: t =>
    match s with
    | None => [2]   (* object could not be built / reset raised: nothing further is observable *)
    | Some st =>
      match o with
      | Next n =>
        match gnext R g st n with
        | None => 2 :: run_ops R g s t       (* exception: state unchanged as far as the model goes *)
        | Some (st', out) => 1 :: enc_samples out ++ run_ops R g (Some st') t
        end
      | Rest =>
        match remaining g st with
        | None => 2 :: run_ops R g s t         (* ValueError: the waveform has no finite duration *)
        | Some r =>
          match gnext R g st r with
          | None => 2 :: run_ops R g s t
          | Some (st', out) => 1 :: enc_samples out ++ run_ops R g (Some st') t
          end
        end
      | Reset =>
        match greset R g with
        | None => [2]
        | Some st' => 3 :: run_ops R g (Some st') t
        end
      | Query =>
        4 :: enc_opt (n_samples g st) ++ enc_opt (remaining g st)
          ++ [if complete g st then 1 else 0] ++ run_ops R g s t
      end
    end
  end.
Definition run_gen (g : gen) (ops : list sop) : list Z :=
  run_ops all_repaired g (greset all_repaired g) ops.

(* fragment functions called directly (stim.envelope / _sam_envelope / square_wave) *)
Definition enc_factors (l : list factor) : list Z :=
  zlen l :: flat_map (fun f => match f with (t, a, b) => [t; a; b] end) l.
Definition run_envelope (elb dur rise offset samples : Z) : list Z :=
  match envelope_frag 0 elb dur rise offset samples with
  | None => [2]
  | Some e => 1 :: enc_factors e
  end.
Definition run_sam (D offset samples : Z) : list Z := enc_factors (sam_frag true 0 D offset samples).
Definition run_sqenv (P : Q) (duty offset samples : Z) : list Z :=
  enc_factors (sqenv_frag true 0 P duty offset samples).
