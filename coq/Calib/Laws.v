(* C07 - laws of the calibration conversions, proved over R about the definitions that
   translate/pyexpr2coq.py REGENERATES from psiaudio/calibration.py and psiaudio/util.py on every run
   (coq/gen/CalibGen.v).  If a formula in the source changes so that a law no longer holds, this file stops
   compiling and ./check reports the property as broken. *)
From Coq Require Import Reals Lra List.
From PV Require Import Calib.RBase gen.CalibGen.
Import ListNotations.
Open Scope R_scope.

Ltac unf := unfold cal_get_gain, cal_get_attenuation, flat_get_mean_sf, flat_get_level, flat_as_attenuation, freq_from_spl,
  flat_from_pascals, flat_from_db, flat_from_spl, flat_from_mv_pa, flat_to_mv_pa, flat_unity,
  freq_from_pascals, freq_from_db, flat_get_sens, interp_get_sens, cal_get_db, cal_get_sf,
  util_patodb, util_dbtopa, util_db, util_dbi in *.

(* x / 1 = x, to expose log10/pow10 redexes *)
Lemma Rdiv_one x : x / 1 = x.
Proof. field. Qed.
Ltac div1 := rewrite ?Rdiv_one, ?Rmult_1_r.

(* ---------------------------------------------------------------- dB helpers (util.db, util.dbi, patodb, dbtopa) *)
Lemma db_dbi x r : 0 < r -> util_db (util_dbi x r) r = x.
Proof.
  intros Hr. unf. replace (pow10 (x / 20) * r / r) with (pow10 (x / 20)) by (field; lra).
  rewrite log10_pow10. field.
Qed.

Lemma dbi_db x r : 0 < x -> 0 < r -> util_dbi (util_db x r) r = x.
Proof.
  intros Hx Hr. unf. replace (20 * log10 (x / r) / 20) with (log10 (x / r)) by field.
  rewrite pow10_log10. field; lra. apply Rdiv_lt_0_compat; assumption.
Qed.

Lemma dbi_plus x d r : util_dbi (x + d) r = util_dbi d 1 * util_dbi x r.
Proof. unf. replace ((x + d) / 20) with (d / 20 + x / 20) by field. rewrite pow10_plus. ring. Qed.

Lemma dbi_20 : util_dbi 20 1 = 10.
Proof. unf. replace (20 / 20) with 1 by field. rewrite pow10_1. ring. Qed.

Lemma dbi_plus20 x r : util_dbi (x + 20) r = 10 * util_dbi x r.
Proof. rewrite dbi_plus, dbi_20. reflexivity. Qed.

Lemma db_times10 x r : 0 < x -> 0 < r -> util_db (10 * x) r = util_db x r + 20.
Proof.
  intros Hx Hr. unf. replace (10 * x / r) with (10 * (x / r)) by (field; lra).
  rewrite log10_mult, log10_10; try lra. apply Rdiv_lt_0_compat; assumption.
Qed.

Lemma patodb_dbtopa x : util_patodb (util_dbtopa x) = x.
Proof. unfold util_patodb, util_dbtopa. apply db_dbi. lra. Qed.

Lemma dbtopa_patodb p : 0 < p -> util_dbtopa (util_patodb p) = p.
Proof. intros Hp. unfold util_patodb, util_dbtopa. apply dbi_db; lra. Qed.

(* ---------------------------------------------------------------- level <-> volts *)
Lemma get_db_eq s v : cal_get_db s v = 20 * log10 v + s.
Proof. unf. div1. reflexivity. Qed.

Lemma get_sf_pos s L a : 0 < cal_get_sf s L a.
Proof. unf. apply pow10_pos. Qed.

Lemma roundtrip s L : cal_get_db s (cal_get_sf s L 0) = L.
Proof. unf. div1. rewrite log10_pow10. field. Qed.

Lemma roundtrip_att s L a : cal_get_db s (cal_get_sf s L a) = L + a.
Proof. unf. div1. rewrite log10_pow10. field. Qed.

Lemma inverse s v : 0 < v -> cal_get_sf s (cal_get_db s v) 0 = v.
Proof.
  intros Hv. unf. div1.
  replace ((20 * log10 v + s - s + 0) / 20) with (log10 v) by field.
  now apply pow10_log10.
Qed.

Lemma attenuation_offset s L a d : cal_get_sf s L (a + d) = util_dbi d 1 * cal_get_sf s L a.
Proof.
  unf. replace ((L - s + (a + d)) / 20) with (d / 20 + (L - s + a) / 20) by field.
  rewrite pow10_plus. ring.
Qed.

Lemma attenuation_20 s L a : cal_get_sf s L (a + 20) = 10 * cal_get_sf s L a.
Proof. rewrite attenuation_offset, dbi_20. reflexivity. Qed.

Lemma level_offset s L a d : cal_get_sf s (L + d) a = util_dbi d 1 * cal_get_sf s L a.
Proof.
  unf. replace ((L + d - s + a) / 20) with (d / 20 + (L - s + a) / 20) by field.
  rewrite pow10_plus. ring.
Qed.

Lemma level_20 s L a : cal_get_sf s (L + 20) a = 10 * cal_get_sf s L a.
Proof. rewrite level_offset, dbi_20. reflexivity. Qed.

Lemma db_volts_20 s v : 0 < v -> cal_get_db s (10 * v) = cal_get_db s v + 20.
Proof. intros Hv. rewrite !get_db_eq. rewrite log10_mult, log10_10; lra. Qed.

Lemma gain_is_db s L a : cal_get_gain s L a = L - s + a.
Proof. unfold cal_get_gain. unf. div1. rewrite log10_pow10. field. Qed.

Lemma gain_is_db_of_sf s L a : util_dbi (cal_get_gain s L a) 1 = cal_get_sf s L a.
Proof. unfold cal_get_gain. apply dbi_db. apply get_sf_pos. lra. Qed.

Lemma get_attenuation_eq s v L : cal_get_attenuation s v L = cal_get_db s v - L.
Proof. reflexivity. Qed.

(* the attenuation reported for (voltage, level) is the one with which get_sf gives that voltage back *)
Lemma attenuation_inverse s v L : 0 < v -> cal_get_sf s L (cal_get_attenuation s v L) = v.
Proof.
  intros Hv. unf. div1.
  replace ((L - s + (20 * log10 v + s - L)) / 20) with (log10 v) by field.
  now apply pow10_log10.
Qed.

(* ---------------------------------------------------------------- fixed gain *)
Lemma flat_sens_eq S g : flat_get_sens S g = S - g.
Proof. reflexivity. Qed.

Lemma interp_sens_eq i g : interp_get_sens i g = i - g.
Proof. reflexivity. Qed.

Lemma fixed_gain_sf (sensf : R -> R -> R) :
  (forall S g, sensf S g = S - g) ->
  forall S g d L a, cal_get_sf (sensf S (g + d)) L a = util_dbi d 1 * cal_get_sf (sensf S g) L a.
Proof.
  intros H S g d L a. rewrite !H. unf.
  replace ((L - (S - (g + d)) + a) / 20) with (d / 20 + (L - (S - g) + a) / 20) by field.
  rewrite pow10_plus. ring.
Qed.

Lemma fixed_gain_db (sensf : R -> R -> R) :
  (forall S g, sensf S g = S - g) ->
  forall S g v, cal_get_db (sensf S g) v = cal_get_db (sensf S 0) v - g.
Proof. intros H S g v. rewrite !H, !get_db_eq. lra. Qed.

Lemma fixed_gain_offset S g L a v :
  cal_get_sf (flat_get_sens S (g + 20)) L a = 10 * cal_get_sf (flat_get_sens S g) L a /\
  cal_get_sf (interp_get_sens S (g + 20)) L a = 10 * cal_get_sf (interp_get_sens S g) L a /\
  cal_get_db (flat_get_sens S g) v = cal_get_db (flat_get_sens S 0) v - g /\
  cal_get_db (interp_get_sens S g) v = cal_get_db (interp_get_sens S 0) v - g.
Proof.
  repeat split.
  - rewrite (fixed_gain_sf flat_get_sens flat_sens_eq), dbi_20. reflexivity.
  - rewrite (fixed_gain_sf interp_get_sens interp_sens_eq), dbi_20. reflexivity.
  - apply (fixed_gain_db flat_get_sens flat_sens_eq).
  - apply (fixed_gain_db interp_get_sens interp_sens_eq).
Qed.

Lemma fixed_gain_offset_general S g d L a :
  cal_get_sf (flat_get_sens S (g + d)) L a = util_dbi d 1 * cal_get_sf (flat_get_sens S g) L a /\
  cal_get_sf (interp_get_sens S (g + d)) L a = util_dbi d 1 * cal_get_sf (interp_get_sens S g) L a.
Proof.
  split.
  - apply (fixed_gain_sf flat_get_sens flat_sens_eq).
  - apply (fixed_gain_sf interp_get_sens interp_sens_eq).
Qed.

(* ---------------------------------------------------------------- constructors *)
(* "vrms volts were measured as `level` dB": the calibration reads vrms back as that level, and asks for vrms to
   produce it. *)
Lemma from_db_consistent level v : 0 < v ->
  cal_get_db (flat_from_db level v) v = level /\ cal_get_sf (flat_from_db level v) level 0 = v /\
  cal_get_db (freq_from_db level v) v = level /\ cal_get_sf (freq_from_db level v) level 0 = v.
Proof.
  intros Hv. unf. div1.
  replace ((level - (level - 20 * log10 v) + 0) / 20) with (log10 v) by field.
  rewrite pow10_log10 by assumption. repeat split; lra.
Qed.

Lemma from_spl_consistent spl v : 0 < v ->
  cal_get_db (flat_from_spl spl v) v = spl /\ cal_get_sf (flat_from_spl spl v) spl 0 = v /\
  cal_get_db (freq_from_spl spl v) v = spl /\ cal_get_sf (freq_from_spl spl v) spl 0 = v.
Proof.
  intros Hv. unf. div1.
  replace ((spl - (spl - 20 * log10 v) + 0) / 20) with (log10 v) by field.
  rewrite pow10_log10 by assumption. repeat split; lra.
Qed.

(* "vrms volts were measured as `m` Pascals": vrms reads back as the SPL of m Pascals (util.patodb). *)
Lemma from_pascals_consistent m v : 0 < m -> 0 < v ->
  cal_get_db (flat_from_pascals m v) v = util_patodb m /\
  cal_get_db (freq_from_pascals m v) v = util_patodb m.
Proof.
  intros Hm Hv. unf. div1. rewrite (log10_div m) by lra. split; lra.
Qed.

(* all constructors describe the same device *)
Lemma constructors_agree m spl v : 0 < m -> 0 < v ->
  flat_from_pascals m v = flat_from_spl (util_patodb m) v /\
  freq_from_pascals m v = freq_from_spl (util_patodb m) v /\
  flat_from_spl spl v = flat_from_db spl v /\ freq_from_spl spl v = freq_from_db spl v /\
  flat_from_db spl v = freq_from_db spl v.
Proof.
  intros Hm Hv. unf. div1. rewrite (log10_div m) by lra. repeat split; lra.
Qed.

Lemma unity_passthrough L v : 0 < v ->
  cal_get_sf flat_unity L 0 = util_dbi L 1 /\ cal_get_db flat_unity v = util_db v 1.
Proof.
  intros Hv. unf. div1. split.
  - f_equal. field.
  - lra.
Qed.

Lemma as_attenuation_consistent v L : 0 < v ->
  cal_get_db (flat_as_attenuation v) v = 0 /\ cal_get_sf (flat_as_attenuation v) L 0 = util_dbi L 1 * v.
Proof.
  intros Hv. unf. div1. split. lra.
  replace ((L - (0 - 20 * log10 v) + 0) / 20) with (L / 20 + log10 v) by field.
  rewrite pow10_plus, pow10_log10 by assumption. reflexivity.
Qed.

(* a microphone of m mV/Pa turns p Pascals into m * 1e-3 * p volts; the calibration reads that as the SPL of p *)
Lemma from_mv_pa_consistent m p : 0 < m -> 0 < p ->
  cal_get_db (flat_from_mv_pa m) (m * (1 / 1000) * p) = util_patodb p.
Proof.
  intros Hm Hp. unf. div1.
  assert (H1 : 0 < m * (1 / 1000)) by (apply Rmult_lt_0_compat; lra).
  rewrite (log10_div 1 (m * (1 / 1000))), (log10_div p), log10_1 by lra.
  rewrite (log10_mult (m * (1 / 1000)) p) by lra. lra.
Qed.

Lemma mv_pa_roundtrip m : 0 < m -> flat_to_mv_pa (flat_from_mv_pa m) = m.
Proof.
  intros Hm. unf. div1.
  assert (H1 : 0 < m * (1 / 1000)) by (apply Rmult_lt_0_compat; lra).
  replace ((20 * log10 (1 / (m * (1 / 1000))) - 20 * log10 (1 / 50000) + 20 * log10 (1 / 50000)) / 20)
    with (log10 (1 / (m * (1 / 1000)))) by field.
  rewrite pow10_log10. field; lra. apply Rdiv_lt_0_compat; lra.
Qed.

Lemma mv_pa_roundtrip' s : flat_from_mv_pa (flat_to_mv_pa s) = s.
Proof.
  unf. div1. set (c := 20 * log10 (1 / 50000)).
  pose proof (pow10_pos ((s + c) / 20)) as Hp.
  replace (1 / (1000 / pow10 ((s + c) / 20) * (1 / 1000))) with (pow10 ((s + c) / 20)) by (field; lra).
  rewrite log10_pow10. field.
Qed.

Lemma get_level_is_dbi s v : 0 < v -> flat_get_level s v = util_dbi (cal_get_db s v) 1.
Proof.
  intros Hv. unf. div1. replace ((20 * log10 v + s) / 20) with (log10 v + s / 20) by field.
  rewrite pow10_plus, pow10_log10 by assumption. reflexivity.
Qed.

(* ---------------------------------------------------------------- mean scale factor over a frequency range *)
Definition rsum (l : list R) : R := fold_right Rplus 0 l.
Definition rmean (l : list R) : R := rsum l / INR (length l).
(* get_mean_sf: mean over the frequencies of the range of get_sf at the sensitivity of each frequency *)
Definition mean_sf (senss : list R) (L a : R) : R := rmean (map (fun s => cal_get_sf s L a) senss).

Lemma rsum_scale k (f g : R -> R) l : (forall x, f x = k * g x) -> rsum (map f l) = k * rsum (map g l).
Proof. intros H. induction l as [|x l IH]; simpl. ring. rewrite IH, H. ring. Qed.

Lemma mean_sf_offset ss L a d : mean_sf ss L (a + d) = util_dbi d 1 * mean_sf ss L a.
Proof.
  unfold mean_sf, rmean. rewrite !map_length.
  rewrite (rsum_scale (util_dbi d 1) _ (fun s => cal_get_sf s L a)).
  unfold Rdiv. ring. intros s. apply attenuation_offset.
Qed.

Lemma mean_sf_20 ss L a : mean_sf ss L (a + 20) = 10 * mean_sf ss L a.
Proof. rewrite mean_sf_offset, dbi_20. reflexivity. Qed.

Lemma rsum_const c (f : R -> R) l : (forall x, In x l -> f x = c) -> rsum (map f l) = INR (length l) * c.
Proof.
  induction l as [|x l IH]; intros H. simpl. ring.
  change (rsum (map f (x :: l))) with (f x + rsum (map f l)).
  rewrite IH by (intros; apply H; simpl; auto). rewrite H by (simpl; auto). change (length (x :: l)) with (S (length l)). rewrite S_INR. ring.
Qed.

(* FlatCalibration overrides get_mean_sf by a single get_sf: same value as the mean over any non-empty range *)
Lemma flat_mean_sf s ss L a : ss <> [] -> (forall x, In x ss -> x = s) ->
  mean_sf ss L a = flat_get_mean_sf s L a.
Proof.
  intros Hne Hall. unfold mean_sf, rmean, flat_get_mean_sf. rewrite map_length.
  rewrite (rsum_const (cal_get_sf s L a)).
  - field. destruct ss. congruence. cbn [length]. rewrite S_INR. pose proof (pos_INR (length ss)). lra.
  - intros x Hx. now rewrite (Hall x Hx).
Qed.

Lemma flat_mean_sf_20 s L a : flat_get_mean_sf s L (a + 20) = 10 * flat_get_mean_sf s L a.
Proof. rewrite <- !(flat_mean_sf s [s]); try (intros ? [->|[]]; reflexivity); try discriminate. apply mean_sf_20. Qed.

(* ---------------------------------------------------------------- bundles stated in Props/C07.v *)
Lemma mean_sf_attenuation_offset ss s L a :
  mean_sf ss L (a + 20) = 10 * mean_sf ss L a /\ flat_get_mean_sf s L (a + 20) = 10 * flat_get_mean_sf s L a.
Proof. split. apply mean_sf_20. apply flat_mean_sf_20. Qed.

Lemma unity_and_attenuation v L : 0 < v ->
  (cal_get_sf flat_unity L 0 = util_dbi L 1 /\ cal_get_db flat_unity v = util_db v 1) /\
  (cal_get_db (flat_as_attenuation v) v = 0 /\ cal_get_sf (flat_as_attenuation v) L 0 = util_dbi L 1 * v).
Proof. intros Hv. split. now apply unity_passthrough. now apply as_attenuation_consistent. Qed.

Lemma db_dbi_inverse x r : 0 < r ->
  util_db (util_dbi x r) r = x /\ (0 < x -> util_dbi (util_db x r) r = x) /\
  util_dbi (x + 20) r = 10 * util_dbi x r /\ util_patodb (util_dbtopa x) = x.
Proof.
  intros Hr. split. now apply db_dbi. split. intros Hx. now apply dbi_db.
  split. apply dbi_plus20. apply patodb_dbtopa.
Qed.

Lemma attenuation_offset_both s L a d :
  cal_get_sf s L (a + 20) = 10 * cal_get_sf s L a /\ cal_get_sf s L (a + d) = util_dbi d 1 * cal_get_sf s L a.
Proof. split. apply attenuation_20. apply attenuation_offset. Qed.

Lemma level_offset_both s L a v : 0 < v ->
  cal_get_sf s (L + 20) a = 10 * cal_get_sf s L a /\ cal_get_db s (10 * v) = cal_get_db s v + 20.
Proof. intros Hv. split. apply level_20. now apply db_volts_20. Qed.

Lemma mean_sf_laws ss s L a :
  mean_sf ss L (a + 20) = 10 * mean_sf ss L a /\ flat_get_mean_sf s L (a + 20) = 10 * flat_get_mean_sf s L a /\
  (ss <> [] -> (forall x, In x ss -> x = s) -> mean_sf ss L a = flat_get_mean_sf s L a).
Proof. split. apply mean_sf_20. split. apply flat_mean_sf_20. apply flat_mean_sf. Qed.

Lemma from_spl_from_db_consistent level v : 0 < v ->
  (cal_get_db (flat_from_spl level v) v = level /\ cal_get_sf (flat_from_spl level v) level 0 = v /\
   cal_get_db (freq_from_spl level v) v = level /\ cal_get_sf (freq_from_spl level v) level 0 = v) /\
  (cal_get_db (flat_from_db level v) v = level /\ cal_get_sf (flat_from_db level v) level 0 = v /\
   cal_get_db (freq_from_db level v) v = level /\ cal_get_sf (freq_from_db level v) level 0 = v).
Proof. intros Hv. split. now apply from_spl_consistent. now apply from_db_consistent. Qed.

Lemma from_pascals_consistent_agree m spl v : 0 < m -> 0 < v ->
  (cal_get_db (flat_from_pascals m v) v = util_patodb m /\ cal_get_db (freq_from_pascals m v) v = util_patodb m) /\
  (flat_from_pascals m v = flat_from_spl (util_patodb m) v /\
   freq_from_pascals m v = freq_from_spl (util_patodb m) v /\
   flat_from_spl spl v = flat_from_db spl v /\ freq_from_spl spl v = freq_from_db spl v /\
   flat_from_db spl v = freq_from_db spl v).
Proof. intros Hm Hv. split. now apply from_pascals_consistent. now apply constructors_agree. Qed.

Lemma mv_pa_laws m p s : 0 < m -> 0 < p ->
  flat_to_mv_pa (flat_from_mv_pa m) = m /\ flat_from_mv_pa (flat_to_mv_pa s) = s /\
  cal_get_db (flat_from_mv_pa m) (m * (1 / 1000) * p) = util_patodb p.
Proof. intros Hm Hp. split. now apply mv_pa_roundtrip. split. apply mv_pa_roundtrip'. now apply from_mv_pa_consistent. Qed.

(* ---------------------------------------------------------------- the code before the two repairs (fix-C07) *)
Definition flat_from_pascals_unrepaired (magnitude vrms : R) : R :=
  util_db vrms 1 - util_db magnitude 1 - util_db (1 / 50000) 1.
Definition flat_get_mean_sf_unrepaired (sens spl attenuation : R) : R := cal_get_sf sens spl 0.

Lemma from_pascals_unrepaired_refuted : exists m v, 0 < m /\ 0 < v /\
  cal_get_db (flat_from_pascals_unrepaired m v) v <> util_patodb m.
Proof.
  exists 10, 1. split; [lra|split; [lra|]]. unfold flat_from_pascals_unrepaired. unf. div1.
  rewrite (log10_div 10), log10_1, log10_10 by lra. lra.
Qed.

Lemma mean_sf_unrepaired_refuted : exists s L a,
  flat_get_mean_sf_unrepaired s L (a + 20) <> 10 * flat_get_mean_sf_unrepaired s L a.
Proof.
  exists 0, 0, 0. unfold flat_get_mean_sf_unrepaired. pose proof (get_sf_pos 0 0 0). lra.
Qed.

Lemma unrepaired_refuted :
  (exists m v, 0 < m /\ 0 < v /\ cal_get_db (flat_from_pascals_unrepaired m v) v <> util_patodb m) /\
  (exists s L a, flat_get_mean_sf_unrepaired s L (a + 20) <> 10 * flat_get_mean_sf_unrepaired s L a).
Proof. split. apply from_pascals_unrepaired_refuted. apply mean_sf_unrepaired_refuted. Qed.
