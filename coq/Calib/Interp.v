(* C07 - executable Q-valued model of the sensitivity lookups of psiaudio/calibration.py that are not plain arithmetic:

   InterpCalibration._interp = scipy interp1d(frequency, sensitivity, 'linear', bounds_error=False, fill_value=nan)
       (sorted table; x < x[0] or x > x[-1] -> NaN, here None; a query equal to a table point returns the table value;
        otherwise slope * (x - x_lo) + y_lo with slope = (y_hi - y_lo) / (x_hi - x_lo)  -- numpy.interp)
   PointCalibration._get_sens : first index with frequency == query, else CalibrationError (here None)
   BaseCalibration.get_mean_sf: frequencies np.arange(flb, fub); NaN anywhere (or an empty range) -> ValueError,
       an uncalibrated point frequency -> CalibrationError (here None).

   Definitions, the boolean check_* functions used by the generated correspondence files, and the proofs. *)
From Coq Require Import QArith Qabs Lqa.
From PV Require Export Common.ListX.
Open Scope Q_scope.

Definition tbl := list (Q * Q).

(* ------------------------------------------------------------------ interpolation *)
Definition lin (x0 y0 x1 y1 q : Q) : Q :=
  if Qeq_bool q x0 then y0 else y0 + (y1 - y0) / (x1 - x0) * (q - x0).

(* precondition: x0 <= q *)
Fixpoint interp_from (x0 y0 : Q) (rest : tbl) (q : Q) : option Q :=
  match rest with
  | [] => if Qeq_bool q x0 then Some y0 else None
  | (x1, y1) :: rest' => if Qle_bool q x1 then Some (lin x0 y0 x1 y1 q) else interp_from x1 y1 rest' q
  end.

Definition interp (t : tbl) (q : Q) : option Q :=
  match t with
  | [] => None
  | (x0, y0) :: rest => if Qle_bool x0 q then interp_from x0 y0 rest q else None
  end.

Fixpoint sorted_from (x0 : Q) (rest : tbl) : Prop :=
  match rest with [] => True | (x1, _) :: r => x0 < x1 /\ sorted_from x1 r end.
Definition sorted (t : tbl) : Prop := match t with [] => True | (x0, _) :: r => sorted_from x0 r end.

Fixpoint last_x (x0 : Q) (rest : tbl) : Q := match rest with [] => x0 | (x1, _) :: r => last_x x1 r end.

(* the value of the straight line through (x0,y0) and (x1,y1) at q *)
Definition seg (x0 y0 x1 y1 q : Q) : Q := y0 + (y1 - y0) * (q - x0) / (x1 - x0).

(* ------------------------------------------------------------------ exact-match lookup *)
Fixpoint point (t : tbl) (q : Q) : option Q :=
  match t with
  | [] => None
  | (x, y) :: r => if Qeq_bool x q then Some y else point r q
  end.

(* ------------------------------------------------------------------ get_mean_sf: which requests are answered *)
Fixpoint all_some (l : list (option Q)) : option (list Q) :=
  match l with
  | [] => Some []
  | None :: _ => None
  | Some v :: r => match all_some r with Some vs => Some (v :: vs) | None => None end
  end.

Definition arange (flb fub : Z) : list Q := zrange (fun k => inject_Z k) flb (fub - flb).

(* Some sensitivities = get_mean_sf returns the mean of get_sf over them (Calib/Laws.v mean_sf); None = it raises *)
Definition mean_sens (lookup : Q -> option Q) (flb fub : Z) : option (list Q) :=
  match arange flb fub with
  | [] => None
  | fs => all_some (map lookup fs)
  end.

(* ------------------------------------------------------------------ correspondence checks (vm_compute) *)
(* a binary64 value n * 2^e *)
Definition dy (n e : Z) : Q :=
  if (0 <=? e)%Z then inject_Z (n * 2 ^ e) else Qmake n (Z.to_pos (2 ^ (- e))).

(* |m - v| <= 1e-9 * (|m| + 1) *)
Definition close (m v : Q) : bool := Qle_bool (Qabs (m - v) * (1000000000 # 1)) (Qabs m + 1).

Inductive obs := ONone | OVal (v : Q) | OExact (v : Q).

(* model lookup result (before the fixed gain is subtracted) against what the implementation's get_sens returned:
   ONone = NaN (interp) / CalibrationError (point) *)
Definition check_one (m : option Q) (g : Q) (o : obs) : bool :=
  match m, o with
  | None, ONone => true
  | Some s, OVal v => close (s - g) v
  | Some s, OExact v => Qeq_bool (s - g) v
  | _, _ => false
  end.

Definition check_interp (t : tbl) (g : Q) (qs : list (Q * obs)) : bool :=
  forallb (fun p => check_one (interp t (fst p)) g (snd p)) qs.
Definition check_point (t : tbl) (g : Q) (qs : list (Q * obs)) : bool :=
  forallb (fun p => check_one (point t (fst p)) g (snd p)) qs.
Definition check_flat (s g : Q) (vs : list Q) : bool := forallb (fun v => close (s - g) v) vs.

Definition is_none {A} (o : option A) : bool := match o with None => true | Some _ => false end.
(* get_mean_sf(flb, fub, ..) raised <-> the model has no answer *)
Definition check_mean_interp (t : tbl) (flb fub : Z) (raised : bool) : bool :=
  Bool.eqb (is_none (mean_sens (interp t) flb fub)) raised.
Definition check_mean_point (t : tbl) (flb fub : Z) (raised : bool) : bool :=
  Bool.eqb (is_none (mean_sens (point t) flb fub)) raised.

(* ================================================================== proofs *)
Lemma Qle_bool_false x y : Qle_bool x y = false -> y < x.
Proof.
  intros H. apply Qnot_le_lt. intros C. apply Qle_bool_iff in C. congruence.
Qed.

Lemma Qeq_bool_false x y : Qeq_bool x y = false -> ~ x == y.
Proof. intros H C. apply Qeq_bool_iff in C. congruence. Qed.

Lemma seg_left x0 y0 x1 y1 : x0 < x1 -> seg x0 y0 x1 y1 x0 == y0.
Proof. intros H. unfold seg. field. lra. Qed.

Lemma seg_right x0 y0 x1 y1 : x0 < x1 -> seg x0 y0 x1 y1 x1 == y1.
Proof. intros H. unfold seg. field. lra. Qed.

Lemma seg_comp x0 y0 x1 y1 q q' : q == q' -> seg x0 y0 x1 y1 q == seg x0 y0 x1 y1 q'.
Proof. intros H. unfold seg. now rewrite H. Qed.

(* affine combination form: (1 - t) * y0 + t * y1 with t = (q - x0) / (x1 - x0) *)
Lemma seg_affine x0 y0 x1 y1 q : x0 < x1 ->
  seg x0 y0 x1 y1 q == (1 - (q - x0) / (x1 - x0)) * y0 + (q - x0) / (x1 - x0) * y1.
Proof. intros H. unfold seg. field. lra. Qed.

Lemma lin_seg x0 y0 x1 y1 q : x0 < x1 -> lin x0 y0 x1 y1 q == seg x0 y0 x1 y1 q.
Proof.
  intros H. unfold lin. destruct (Qeq_bool q x0) eqn:E.
  - apply Qeq_bool_iff in E. rewrite (seg_comp _ _ _ _ _ _ E). symmetry. now apply seg_left.
  - unfold seg. field. lra.
Qed.

Lemma sorted_from_last x0 rest : sorted_from x0 rest -> x0 <= last_x x0 rest.
Proof.
  revert x0. induction rest as [|[x1 y1] r IH]; intros x0 H; simpl in *. lra.
  destruct H as [H1 H2]. specialize (IH _ H2). lra.
Qed.

Lemma sorted_from_app_lt xs pre x0 y0 post : sorted_from xs (pre ++ (x0, y0) :: post) -> xs < x0.
Proof.
  revert xs. induction pre as [|[xp yp] pre IH]; intros xs H; simpl in H.
  - tauto.
  - destruct H as [H1 H2]. specialize (IH _ H2). lra.
Qed.

Lemma sorted_from_app_r xs pre x0 y0 post : sorted_from xs (pre ++ (x0, y0) :: post) -> sorted_from x0 post.
Proof.
  revert xs. induction pre as [|[xp yp] pre IH]; intros xs H; simpl in H.
  - tauto.
  - destruct H as [H1 H2]. now apply (IH _ H2).
Qed.

(* --- outside the table: no answer *)
Lemma interp_from_above x0 y0 rest q : sorted_from x0 rest -> last_x x0 rest < q -> interp_from x0 y0 rest q = None.
Proof.
  revert x0 y0. induction rest as [|[x1 y1] r IH]; intros x0 y0 Hs Hq; simpl in *.
  - destruct (Qeq_bool q x0) eqn:E; [|reflexivity]. apply Qeq_bool_iff in E. lra.
  - destruct Hs as [H1 H2]. pose proof (sorted_from_last _ _ H2).
    destruct (Qle_bool q x1) eqn:E. apply Qle_bool_iff in E. lra. now apply IH.
Qed.

Theorem interp_outside_none t x0 y0 rest q : t = (x0, y0) :: rest -> sorted t ->
  q < x0 \/ last_x x0 rest < q -> interp t q = None.
Proof.
  intros -> Hs [H|H]; simpl.
  - destruct (Qle_bool x0 q) eqn:E; [|reflexivity]. apply Qle_bool_iff in E. lra.
  - destruct (Qle_bool x0 q) eqn:E; [|reflexivity]. now apply interp_from_above.
Qed.

Theorem interp_empty q : interp [] q = None.
Proof. reflexivity. Qed.

(* --- between two neighbours: the straight line through them *)
Lemma interp_from_head x0 y0 x1 y1 post q : x0 < x1 -> x0 <= q <= x1 ->
  exists v, interp_from x0 y0 ((x1, y1) :: post) q = Some v /\ v == seg x0 y0 x1 y1 q.
Proof.
  intros H [Ha Hb]. simpl. destruct (Qle_bool q x1) eqn:E.
  - eexists. split. reflexivity. now apply lin_seg.
  - apply Qle_bool_false in E. lra.
Qed.

Lemma interp_from_between pre : forall xs ys x0 y0 x1 y1 post q,
  sorted_from xs (pre ++ (x0, y0) :: (x1, y1) :: post) -> x0 <= q <= x1 ->
  exists v, interp_from xs ys (pre ++ (x0, y0) :: (x1, y1) :: post) q = Some v /\ v == seg x0 y0 x1 y1 q.
Proof.
  induction pre as [|[xp yp] pre IH]; intros xs ys x0 y0 x1 y1 post q Hs [Ha Hb].
  - simpl in Hs. destruct Hs as [H0 [H1 H2]]. cbn [app interp_from].
    destruct (Qle_bool q x0) eqn:E.
    + apply Qle_bool_iff in E. assert (Hq : q == x0) by lra.
      eexists. split. reflexivity. rewrite lin_seg by assumption.
      rewrite (seg_comp _ _ _ _ _ _ Hq), (seg_comp x0 _ _ _ _ _ Hq).
      rewrite seg_right, seg_left by assumption. reflexivity.
    + apply Qle_bool_false in E. apply interp_from_head. assumption. split; lra.
  - cbn [app] in Hs |- *. simpl in Hs. destruct Hs as [H0 H1]. cbn [interp_from].
    pose proof (sorted_from_app_lt _ _ _ _ _ H1) as Hlt.
    destruct (Qle_bool q xp) eqn:E.
    + apply Qle_bool_iff in E. lra.
    + apply IH. assumption. split; assumption.
Qed.

Theorem interp_linear_between t pre x0 y0 x1 y1 post q :
  t = pre ++ (x0, y0) :: (x1, y1) :: post -> sorted t -> x0 <= q <= x1 ->
  exists v, interp t q = Some v /\ v == seg x0 y0 x1 y1 q.
Proof.
  intros -> Hs Hq. destruct pre as [|[xs ys] pre].
  - cbn [app interp]. simpl in Hs. destruct Hs as [H1 H2].
    destruct (Qle_bool x0 q) eqn:E.
    + apply interp_from_head. assumption. assumption.
    + apply Qle_bool_false in E. lra.
  - cbn [app interp]. cbn [app sorted] in Hs.
    pose proof (sorted_from_app_lt _ _ _ _ _ Hs) as Hlt.
    destruct (Qle_bool xs q) eqn:E.
    + now apply interp_from_between.
    + apply Qle_bool_false in E. lra.
Qed.

(* --- at the table points: the table value *)
Theorem interp_at_points t x y : sorted t -> In (x, y) t -> exists v, interp t x = Some v /\ v == y.
Proof.
  intros Hs Hin. destruct (in_split _ _ Hin) as [pre [post ->]].
  destruct post as [|[x1 y1] post].
  - (* last entry *)
    destruct pre as [|[xa ya] pre] using rev_ind.
    + simpl. destruct (Qle_bool x x) eqn:E.
      * destruct (Qeq_bool x x) eqn:E2. eexists; split; reflexivity.
        apply Qeq_bool_false in E2. exfalso. apply E2. reflexivity.
      * apply Qle_bool_false in E. lra.
    + clear IHpre. rewrite <- app_assoc in *. cbn [app] in *.
      assert (Hlt : xa < x).
      { destruct pre as [|[xs ys] pre]; simpl in Hs. tauto.
        apply sorted_from_app_r in Hs. simpl in Hs. tauto. }
      destruct (interp_linear_between _ pre xa ya x y [] x eq_refl Hs) as [v [Hv Hv2]]. split; lra.
      exists v. split. assumption. rewrite Hv2. now apply seg_right.
  - assert (Hlt : x < x1).
    { destruct pre as [|[xs ys] pre]; simpl in Hs. tauto.
      apply sorted_from_app_r in Hs. simpl in Hs. tauto. }
    destruct (interp_linear_between _ pre x y x1 y1 post x eq_refl Hs) as [v [Hv Hv2]]. split; lra.
    exists v. split. assumption. rewrite Hv2. now apply seg_left.
Qed.

(* --- inside the range there is always an answer *)
Lemma interp_from_inside x0 y0 rest q : sorted_from x0 rest -> x0 <= q <= last_x x0 rest ->
  exists v, interp_from x0 y0 rest q = Some v.
Proof.
  revert x0 y0. induction rest as [|[x1 y1] r IH]; intros x0 y0 Hs [Ha Hb]; simpl in *.
  - destruct (Qeq_bool q x0) eqn:E. eauto. apply Qeq_bool_false in E. exfalso. apply E. lra.
  - destruct Hs as [H1 H2]. destruct (Qle_bool q x1) eqn:E. eauto.
    apply Qle_bool_false in E. apply IH. assumption. split; lra.
Qed.

Theorem interp_inside_some x0 y0 rest q : sorted ((x0, y0) :: rest) -> x0 <= q <= last_x x0 rest ->
  exists v, interp ((x0, y0) :: rest) q = Some v.
Proof.
  intros Hs [Ha Hb]. simpl. destruct (Qle_bool x0 q) eqn:E.
  - now apply interp_from_inside.
  - apply Qle_bool_false in E. lra.
Qed.

(* --- point calibration *)
Theorem point_some_calibrated t q y : point t q = Some y -> exists x, In (x, y) t /\ x == q.
Proof.
  induction t as [|[x0 y0] r IH]; simpl; intros H. discriminate.
  destruct (Qeq_bool x0 q) eqn:E.
  - inversion H; subst. apply Qeq_bool_iff in E. eauto.
  - destruct (IH H) as [x [H1 H2]]. eauto.
Qed.

Theorem point_uncalibrated_none t q : (forall x y, In (x, y) t -> ~ x == q) -> point t q = None.
Proof.
  induction t as [|[x0 y0] r IH]; simpl; intros H. reflexivity.
  destruct (Qeq_bool x0 q) eqn:E.
  - apply Qeq_bool_iff in E. exfalso. apply (H x0 y0); auto.
  - apply IH. intros x y Hin. apply (H x y). auto.
Qed.

Theorem point_none_uncalibrated t q : point t q = None -> forall x y, In (x, y) t -> ~ x == q.
Proof.
  induction t as [|[x0 y0] r IH]; simpl; intros H x y Hin. contradiction.
  destruct (Qeq_bool x0 q) eqn:E. discriminate.
  destruct Hin as [Hin|Hin].
  - inversion Hin; subst. now apply Qeq_bool_false.
  - now apply (IH H x y).
Qed.

Theorem point_at_calibrated pre x y post :
  (forall x' y', In (x', y') pre -> ~ x' == x) -> point (pre ++ (x, y) :: post) x = Some y.
Proof.
  induction pre as [|[x0 y0] pre IH]; simpl; intros H.
  - destruct (Qeq_bool x x) eqn:E. reflexivity. apply Qeq_bool_false in E. exfalso. apply E. reflexivity.
  - destruct (Qeq_bool x0 x) eqn:E.
    + apply Qeq_bool_iff in E. exfalso. apply (H x0 y0); auto.
    + apply IH. intros x' y' Hin. apply (H x' y'). auto.
Qed.

Theorem point_only_calibrated t q :
  (forall y, point t q = Some y -> exists x, In (x, y) t /\ x == q) /\
  ((forall x y, In (x, y) t -> ~ x == q) -> point t q = None) /\
  (point t q = None -> forall x y, In (x, y) t -> ~ x == q).
Proof.
  split. apply point_some_calibrated. split. apply point_uncalibrated_none. apply point_none_uncalibrated.
Qed.

(* --- get_mean_sf *)
Lemma all_some_none l : In None l -> all_some l = None.
Proof.
  induction l as [|[v|] r IH]; simpl; intros H. contradiction.
  - destruct H as [H|H]. discriminate. now rewrite IH.
  - reflexivity.
Qed.

Lemma all_some_some l vs : all_some l = Some vs -> l = map Some vs.
Proof.
  revert vs. induction l as [|[v|] r IH]; simpl; intros vs H.
  - inversion H. reflexivity.
  - destruct (all_some r) as [vs'|]; [|discriminate]. inversion H; subst. simpl. f_equal. now apply IH.
  - discriminate.
Qed.

Theorem mean_sens_none lookup flb fub f :
  In f (arange flb fub) -> lookup f = None -> mean_sens lookup flb fub = None.
Proof.
  intros Hin Hf. unfold mean_sens. destruct (arange flb fub) as [|f0 fs] eqn:E. reflexivity.
  apply all_some_none. rewrite <- Hf. now apply in_map.
Qed.

Theorem mean_sens_empty lookup flb fub : (fub <= flb)%Z -> mean_sens lookup flb fub = None.
Proof.
  intros H. unfold mean_sens, arange, zrange.
  replace (Z.to_nat (fub - flb)) with O by lia. reflexivity.
Qed.

Theorem mean_sens_some lookup flb fub ss : mean_sens lookup flb fub = Some ss ->
  map lookup (arange flb fub) = map Some ss /\ arange flb fub <> [].
Proof.
  unfold mean_sens. destruct (arange flb fub) as [|f0 fs] eqn:E. discriminate.
  intros H. split. now apply all_some_some. discriminate.
Qed.

Lemma zr_in {A} (f : Z -> A) lo n k : (lo <= k < lo + Z.of_nat n)%Z -> In (f k) (zr f lo n).
Proof.
  revert lo. induction n as [|n IH]; intros lo H; simpl. lia.
  destruct (Z.eq_dec k lo) as [->|Hne]. now left. right. apply IH. lia.
Qed.

Lemma arange_in flb fub k : (flb <= k < fub)%Z -> In (inject_Z k) (arange flb fub).
Proof. intros H. unfold arange, zrange. apply zr_in. lia. Qed.

(* a request whose integer range contains one frequency outside the interpolation table raises *)
Theorem mean_sf_outside_raises x0 y0 rest flb fub k : sorted ((x0, y0) :: rest) -> (flb <= k < fub)%Z ->
  inject_Z k < x0 \/ last_x x0 rest < inject_Z k ->
  mean_sens (interp ((x0, y0) :: rest)) flb fub = None.
Proof.
  intros Hs Hk Hout. apply (mean_sens_none _ _ _ (inject_Z k)). now apply arange_in.
  now apply (interp_outside_none _ x0 y0 rest).
Qed.

Theorem mean_sf_uncalibrated_raises t flb fub k : (flb <= k < fub)%Z ->
  (forall x y, In (x, y) t -> ~ x == inject_Z k) -> mean_sens (point t) flb fub = None.
Proof.
  intros Hk Hun. apply (mean_sens_none _ _ _ (inject_Z k)). now apply arange_in.
  now apply point_uncalibrated_none.
Qed.

(* ================================================================== additions (harness coverage audit) *)
(* InterpCalibration(..., fill_value=c): an explicit numeric fill value replaces NaN outside the table (the caller's
   opt-out); fill = None is the default NaN. *)
Definition interp_fill (t : tbl) (fill : option Q) (q : Q) : option Q :=
  match interp t q with Some v => Some v | None => fill end.

Definition check_interp_fill (t : tbl) (fill : option Q) (g : Q) (qs : list (Q * obs)) : bool :=
  forallb (fun p => check_one (interp_fill t fill (fst p)) g (snd p)) qs.

(* get_mean_sf over an explicit frequency list (the harness evaluates np.arange(flb, fub) with the code's own
   expression, so that float, NumPy-integer and off-integer bounds are covered) *)
Definition mean_sens_fs (lookup : Q -> option Q) (fs : list Q) : option (list Q) :=
  match fs with
  | [] => None
  | _ => all_some (map lookup fs)
  end.

Definition check_mean_fs_interp (t : tbl) (fill : option Q) (fs : list Q) (raised : bool) : bool :=
  Bool.eqb (is_none (mean_sens_fs (interp_fill t fill) fs)) raised.
Definition check_mean_fs_point (t : tbl) (fs : list Q) (raised : bool) : bool :=
  Bool.eqb (is_none (mean_sens_fs (point t) fs)) raised.

Lemma interp_fill_default t q : interp_fill t None q = interp t q.
Proof. unfold interp_fill. destruct (interp t q); reflexivity. Qed.

Lemma interp_fill_inside t fill q v : interp t q = Some v -> interp_fill t fill q = Some v.
Proof. unfold interp_fill. intros ->. reflexivity. Qed.

Lemma mean_sens_is_fs lookup flb fub : mean_sens lookup flb fub = mean_sens_fs lookup (arange flb fub).
Proof. unfold mean_sens, mean_sens_fs. destruct (arange flb fub); reflexivity. Qed.

Lemma mean_sens_fs_none lookup fs f : In f fs -> lookup f = None -> mean_sens_fs lookup fs = None.
Proof.
  intros Hin Hf. unfold mean_sens_fs. destruct fs as [|f0 r] eqn:E. reflexivity.
  apply all_some_none. rewrite <- Hf. now apply in_map.
Qed.
