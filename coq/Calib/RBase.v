(* Base-10 logarithm and power over R, as used by the definitions that translate/pyexpr2coq.py emits
   (np.log10 -> log10, 10**x -> pow10), with the handful of laws the dB proofs need.
   Shared by the generated files of C07 (gen/CalibGen.v) and, later, C08/C16. *)
From Coq Require Import Reals Lra.
Open Scope R_scope.

Definition log10 (x : R) : R := ln x / ln 10.
Definition pow10 (x : R) : R := Rpower 10 x.

Lemma ln10_pos : 0 < ln 10.
Proof. rewrite <- ln_1. apply ln_increasing; lra. Qed.

Lemma ln10_neq : ln 10 <> 0.
Proof. pose proof ln10_pos. lra. Qed.

Lemma pow10_pos x : 0 < pow10 x.
Proof. unfold pow10, Rpower. apply exp_pos. Qed.

Lemma log10_pow10 x : log10 (pow10 x) = x.
Proof. unfold log10, pow10, Rpower. rewrite ln_exp. field. apply ln10_neq. Qed.

Lemma pow10_log10 x : 0 < x -> pow10 (log10 x) = x.
Proof.
  intros Hx. unfold log10, pow10, Rpower.
  replace (ln x / ln 10 * ln 10) with (ln x) by (field; apply ln10_neq).
  now apply exp_ln.
Qed.

Lemma pow10_plus x y : pow10 (x + y) = pow10 x * pow10 y.
Proof. unfold pow10. apply Rpower_plus. Qed.

Lemma pow10_0 : pow10 0 = 1.
Proof. unfold pow10. apply Rpower_O. lra. Qed.

Lemma pow10_1 : pow10 1 = 10.
Proof. unfold pow10. apply Rpower_1. lra. Qed.

Lemma pow10_opp x : pow10 (- x) = / pow10 x.
Proof. unfold pow10. apply Rpower_Ropp. Qed.

Lemma pow10_minus x y : pow10 (x - y) = pow10 x / pow10 y.
Proof. unfold Rminus, Rdiv. now rewrite pow10_plus, pow10_opp. Qed.

Lemma pow10_inj x y : pow10 x = pow10 y -> x = y.
Proof. intros H. rewrite <- (log10_pow10 x), <- (log10_pow10 y). now rewrite H. Qed.

Lemma log10_1 : log10 1 = 0.
Proof. unfold log10. rewrite ln_1. field. apply ln10_neq. Qed.

Lemma log10_10 : log10 10 = 1.
Proof. unfold log10. field. apply ln10_neq. Qed.

Lemma log10_mult x y : 0 < x -> 0 < y -> log10 (x * y) = log10 x + log10 y.
Proof. intros Hx Hy. unfold log10. rewrite ln_mult by assumption. field. apply ln10_neq. Qed.

Lemma log10_inv x : 0 < x -> log10 (/ x) = - log10 x.
Proof. intros Hx. unfold log10. rewrite ln_Rinv by assumption. field. apply ln10_neq. Qed.

Lemma log10_div x y : 0 < x -> 0 < y -> log10 (x / y) = log10 x - log10 y.
Proof.
  intros Hx Hy. unfold Rdiv. rewrite log10_mult, log10_inv; try assumption. lra.
  now apply Rinv_0_lt_compat.
Qed.

Lemma log10_increasing x y : 0 < x -> x < y -> log10 x < log10 y.
Proof.
  intros Hx Hxy. unfold log10, Rdiv. apply Rmult_lt_compat_r.
  apply Rinv_0_lt_compat, ln10_pos. now apply ln_increasing.
Qed.
