(* Extension proofs for C14: what the property says about the parts of the model that the
   original theorems did not mention (public index translation, reads stated against the
   appended data only, crossed plain reads).  Stdlib only, no axioms.
   Nothing in Model.v / Spec.v / Proofs.v is changed. *)
From Coq Require Import ZArith List Bool Lia ZifyBool.
From PV Require Import Buffer.Model Buffer.Spec Buffer.Proofs Buffer.SpecX.
Import ListNotations.
Open Scope Z_scope.

(* ------------------------------------------------------------------ *)
(* 0. the state reached by a history                                   *)
(* ------------------------------------------------------------------ *)

Lemma reach_Rel (c fill : Z) (ops : list op) : 1 <= c -> wf_hist (sinit c fill) ops = true ->
  Rel (fst (run (binit c fill) ops)) (fst (spec_run (sinit c fill) ops)).
Proof.
  intros Hc W. apply (run_sim ops (binit c fill) (sinit c fill) (Rel_init c fill Hc) W).
Qed.

Example reach_Rel_ex : 1 <= 3 /\ wf_hist (sinit 3 (-1)) [Append [1;2]; Append [3;4;5;6]; Invalidate 5] = true.
Proof. split; [lia|reflexivity]. Qed.

(* the stream of the abstract state is a function of the history alone *)
Lemma spec_stream_fold : forall (ops : list op) (s : spec),
  stream (fst (spec_run s ops)) = fold_left stream_step ops (stream s).
Proof.
  induction ops as [|o t IH]; intros s.
  - reflexivity.
  - cbn [spec_run fold_left].
    destruct (spec_run (spec_step s o) t) as [s2 rs] eqn:E. cbn [fst].
    specialize (IH (spec_step s o)). rewrite E in IH. cbn [fst] in IH. rewrite IH.
    f_equal. destruct o as [d|i|m|lb ub|a e f|a e f|]; cbn [spec_step stream_step stream]; try reflexivity.
    unfold slen. destruct (i >=? zlen (stream s)); reflexivity.
Qed.

Lemma spec_stream_logical (c fill : Z) (ops : list op) :
  stream (fst (spec_run (sinit c fill) ops)) = logical ops.
Proof. rewrite spec_stream_fold. reflexivity. Qed.

(* without invalidations the logical stream is the concatenation of everything appended *)
Lemma fold_no_invalidate : forall (ops : list op) (st : list Z), no_invalidate ops = true ->
  fold_left stream_step ops st = st ++ appended ops.
Proof.
  induction ops as [|o t IH]; intros st H.
  - cbn [fold_left appended flat_map]. rewrite app_nil_r. reflexivity.
  - unfold no_invalidate in H. cbn [forallb] in H. apply andb_true_iff in H. destruct H as [Ho Ht].
    cbn [fold_left]. rewrite (IH _ Ht). unfold appended. cbn [flat_map].
    destruct o as [d|i|m|lb ub|a e f|a e f|]; cbn [stream_step app]; try reflexivity; try discriminate.
    rewrite app_assoc. reflexivity.
Qed.

Lemma logical_no_invalidate (ops : list op) : no_invalidate ops = true -> logical ops = appended ops.
Proof. intros H. unfold logical. rewrite (fold_no_invalidate ops [] H). reflexivity. Qed.

Example logical_no_invalidate_ex : no_invalidate [Append [1;2]; Resize 4; Append [3]; Bounds] = true /\
  logical [Append [1;2]; Resize 4; Append [3]; Bounds] = [1;2;3].
Proof. split; reflexivity. Qed.

(* ------------------------------------------------------------------ *)
(* 1. the public index translation                                     *)
(* ------------------------------------------------------------------ *)

Lemma index_refines : forall c fill ops, 1 <= c -> wf_hist (sinit c fill) ops = true ->
  forall i, samples_to_index (fst (run (binit c fill) ops)) i
            = spec_index (fst (spec_run (sinit c fill) ops)) i.
Proof.
  intros c fill ops Hc W i. pose proof (reach_Rel c fill ops Hc W) as R.
  destruct R as [Rcap Rcap1 RS Rilb Rlen Rlo Rlo0 Rfill Rtail].
  unfold samples_to_index, spec_index, slen. lia.
Qed.

Lemma nth_skipn_Z (l : list Z) (k : Z) : 0 <= k -> nth (Z.to_nat k) l 0 = hd 0 (skipn (Z.to_nat k) l).
Proof.
  intros _. generalize (Z.to_nat k). clear k. intros n. revert l.
  induction n as [|n IH]; intros l; destruct l as [|x l]; try reflexivity.
  cbn [nth skipn]. apply IH.
Qed.

(* Samples inside the valid window sit at indices ilb <= k < cap, the slot at that index holds
   exactly that sample of the logical stream; the two bounds translate to ilb and cap. *)
Lemma index_in_window : forall c fill ops b, 1 <= c -> wf_hist (sinit c fill) ops = true ->
  fst (run (binit c fill) ops) = b ->
  zlen (buf b) = cap b /\
  samples_to_index b (samples_lb b) = ilb b /\
  samples_to_index b (samples_ub b) = cap b /\
  forall i, samples_lb b <= i < samples_ub b ->
    0 <= ilb b <= samples_to_index b i /\ samples_to_index b i < cap b /\
    nth (Z.to_nat (samples_to_index b i)) (buf b) 0 = nth (Z.to_nat i) (logical ops) 0.
Proof.
  intros c fill ops b Hc W E. pose proof (reach_Rel c fill ops Hc W) as R. rewrite E in R.
  pose proof (spec_stream_logical c fill ops) as HL.
  set (s := fst (spec_run (sinit c fill) ops)) in *.
  destruct R as [Rcap Rcap1 RS Rilb Rlen Rlo Rlo0 Rfill Rtail].
  unfold samples_lb, samples_ub, samples_to_index.
  split; [exact Rlen|]. split; [lia|]. split; [lia|].
  intros i Hi. split; [lia|]. split; [lia|].
  rewrite <- HL. rewrite !nth_skipn_Z by lia.
  rewrite (skipn_shift (buf b) (stream s) (ilb b) (lo s) (i - S b + cap b)) by (lia || exact Rtail).
  f_equal. f_equal. f_equal. lia.
Qed.

(* ------------------------------------------------------------------ *)
(* 2. reads stated against the history alone                           *)
(* ------------------------------------------------------------------ *)

Lemma sget_sample_or (s : spec) (f i : Z) :
  sget s f i = sample_or (stream s) (lo s) (slen s) f i.
Proof. reflexivity. Qed.

Lemma read_is_stream_slice : forall c fill ops b, 1 <= c -> wf_hist (sinit c fill) ops = true ->
  fst (run (binit c fill) ops) = b ->
  samples_ub b = zlen (logical ops) /\
  (forall a e, a <= e ->
     get_range_samples b (Some a) (Some e) =
     if (samples_lb b <=? a) && (e <=? samples_ub b) then OData (slice (logical ops) a e)
     else OIndexError) /\
  (forall a e f, a <= e ->
     get_range_filled b a e f =
     OData (zrange (sample_or (logical ops) (samples_lb b) (samples_ub b) f) a (e - a))).
Proof.
  intros c fill ops b Hc W E. pose proof (reach_Rel c fill ops Hc W) as R. rewrite E in R.
  pose proof (spec_stream_logical c fill ops) as HL.
  set (s := fst (spec_run (sinit c fill) ops)) in *.
  rewrite (Rel_lb b s R), (Rel_ub b s R). split; [|split].
  - unfold slen. rewrite HL. reflexivity.
  - intros a e Hae. rewrite (read_samples b s a e R Hae). unfold spec_read, swindow, slice.
    rewrite HL. reflexivity.
  - intros a e f Hae. rewrite (read_filled b s a e f R Hae). f_equal.
    unfold zrange. apply zr_ext. intros i _. rewrite sget_sample_or, HL. reflexivity.
Qed.

(* without invalidations: slices of the concatenation of everything appended *)
Lemma read_is_appended_slice : forall c fill ops b, 1 <= c -> wf_hist (sinit c fill) ops = true ->
  no_invalidate ops = true -> fst (run (binit c fill) ops) = b ->
  samples_ub b = zlen (appended ops) /\
  forall a e, samples_lb b <= a -> a <= e -> e <= samples_ub b ->
    get_range_samples b (Some a) (Some e) = OData (slice (appended ops) a e).
Proof.
  intros c fill ops b Hc W NI E.
  destruct (read_is_stream_slice c fill ops b Hc W E) as (H1 & H2 & _).
  rewrite (logical_no_invalidate ops NI) in *. split; [exact H1|].
  intros a e Ha Hae He. rewrite (H2 a e Hae).
  destruct (samples_lb b <=? a) eqn:E1; [|lia]. destruct (e <=? samples_ub b) eqn:E2; [|lia].
  reflexivity.
Qed.

Example read_is_appended_slice_ex :
  1 <= 3 /\ wf_hist (sinit 3 0) [Append [1;2]; Resize 4; Append [3;4;5]] = true /\
  no_invalidate [Append [1;2]; Resize 4; Append [3;4;5]] = true /\
  let b := fst (run (binit 3 0) [Append [1;2]; Resize 4; Append [3;4;5]]) in
  samples_lb b <= 2 /\ 2 <= 4 /\ 4 <= samples_ub b /\
  get_range_samples b (Some 2) (Some 4) = OData [3; 4].
Proof. vm_compute. repeat split; congruence. Qed.

(* ------------------------------------------------------------------ *)
(* 3. crossed plain reads                                              *)
(* ------------------------------------------------------------------ *)

Lemma py_slice_crossed {A} (l : list A) (i j : Z) : 0 <= j <= i -> py_slice (Some i) (Some j) l = [].
Proof.
  intros H. unfold py_slice, py_lo, py_hi, adj_bound. cbv zeta.
  destruct (i <? 0) eqn:E1; [lia|]. destruct (j <? 0) eqn:E2; [lia|].
  replace (Z.to_nat (Z.min j (zlen l) - Z.min i (zlen l))) with 0%nat by lia. reflexivity.
Qed.

Lemma read_samples_crossed (b : bstate) (s : spec) (a e : Z) : Rel b s -> e <= a ->
  slen s - scap s <= e -> get_range_samples b (Some a) (Some e) = spec_read s a e.
Proof.
  intros R Hae Hj. destruct R as [Rcap Rcap1 RS Rilb Rlen Rlo Rlo0 Rfill Rtail].
  unfold get_range_samples, spec_read, samples_to_index, slen in *. cbv beta iota zeta.
  destruct (a - S b + cap b <? ilb b) eqn:E1.
  { destruct (lo s <=? a) eqn:E2; [lia|]. reflexivity. }
  destruct (e - S b + cap b >? cap b) eqn:E2.
  { destruct (lo s <=? a) eqn:E3; destruct (e <=? zlen (stream s)) eqn:E4; try lia; reflexivity. }
  destruct (lo s <=? a) eqn:E3; [|lia]. destruct (e <=? zlen (stream s)) eqn:E4; [|lia].
  cbn [andb]. f_equal. rewrite py_slice_crossed by lia. unfold swindow.
  replace (Z.to_nat (e - a)) with 0%nat by lia. reflexivity.
Qed.

Lemma read_samples_ok (b : bstate) (s : spec) (a e : Z) : Rel b s -> read_ok s a e = true ->
  get_range_samples b (Some a) (Some e) = spec_read s a e.
Proof.
  intros R H. unfold read_ok in H. destruct (Z_le_gt_dec a e) as [Hle|Hgt].
  - apply read_samples; assumption.
  - apply read_samples_crossed; [exact R|lia|lia].
Qed.

Lemma step_sim_x (b : bstate) (s : spec) (o : op) : Rel b s -> wf_at_x s o = true ->
  Rel (fst (step b o)) (spec_step s o) /\ snd (step b o) = spec_out s o.
Proof.
  intros R W. unfold wf_at_x in W. apply orb_true_iff in W. destruct W as [W|W].
  { apply step_sim; assumption. }
  destruct o as [d|i|m|lb ub|a e f|a e f|]; try discriminate W; cbn [step fst snd spec_out spec_step].
  - split; [exact R|]. unfold get_range_samples at 1. cbv beta iota zeta.
    rewrite (Rel_lb b s R), (Rel_ub b s R).
    change (get_range_samples b (Some (match lb with None => lo s | Some x => x end))
                                (Some (match ub with None => slen s | Some x => x end))
            = spec_read s (match lb with None => lo s | Some x => x end)
                          (match ub with None => slen s | Some x => x end)).
    apply read_samples_ok; assumption.
  - destruct f as [f|]; [discriminate W|]. split; [exact R|].
    unfold get_latest. rewrite (R_S b s R). fold (slen s). apply read_samples_ok; assumption.
Qed.

Lemma run_sim_x : forall (ops : list op) (b : bstate) (s : spec), Rel b s -> wf_hist_x s ops = true ->
  Rel (fst (run b ops)) (fst (spec_run s ops)) /\ snd (run b ops) = snd (spec_run s ops).
Proof.
  induction ops as [|o t IH]; intros b s R W.
  - cbn [run spec_run fst snd]. split; [exact R|reflexivity].
  - cbn [wf_hist_x] in W. apply andb_true_iff in W. destruct W as [W1 W2].
    destruct (step_sim_x b s o R W1) as [R1 O1].
    specialize (IH (fst (step b o)) (spec_step s o) R1 W2). destruct IH as [R2 O2].
    cbn [run spec_run].
    destruct (step b o) as [b1 r] eqn:Es. cbn [fst snd] in *.
    destruct (run b1 t) as [b2 rs] eqn:Er.
    destruct (spec_run (spec_step s o) t) as [s2 rs'] eqn:Esr.
    cbn [fst snd] in *. split; [exact R2|]. rewrite O1, O2. reflexivity.
Qed.

Lemma wf_hist_wf_hist_x : forall ops s, wf_hist s ops = true -> wf_hist_x s ops = true.
Proof.
  induction ops as [|o t IH]; intros s W; [reflexivity|].
  cbn [wf_hist wf_hist_x] in *. apply andb_true_iff in W. destruct W as [W1 W2].
  apply andb_true_iff. split; [|apply IH; exact W2]. unfold wf_at_x. rewrite W1. reflexivity.
Qed.

(* refinement for the wider class of histories (every history C14_refines_spec covers, plus
   crossed plain reads whose upper bound is at most one capacity behind the newest sample) *)
Lemma refines_spec_x : forall c fill ops, 1 <= c -> wf_hist_x (sinit c fill) ops = true ->
  snd (run (binit c fill) ops) = snd (spec_run (sinit c fill) ops).
Proof.
  intros c fill ops Hc W. apply (run_sim_x ops (binit c fill) (sinit c fill) (Rel_init c fill Hc) W).
Qed.

Example refines_spec_x_ex : 1 <= 3 /\
  wf_hist (sinit 3 0) [Append [1;2;3;4;5]; ReadS (Some 4) (Some 2); Latest (-1) (-3) None] = false /\
  wf_hist_x (sinit 3 0) [Append [1;2;3;4;5]; ReadS (Some 4) (Some 2); Latest (-1) (-3) None] = true.
Proof. split; [lia|]. split; reflexivity. Qed.

(* The remaining crossed reads (upper bound more than a capacity behind the newest sample) are
   NOT refinements: the negative buffer index wraps around as a Python slice bound and the read
   returns samples although the requested range is empty.  Replayed on the code:
   SignalBuffer(1, 3); append 1..5; get_range_samples(2, 1) -> [3, 4]. *)
Lemma crossed_read_refuted : exists c fill ops, 1 <= c /\
  wf_hist (sinit c fill) (removelast ops) = true /\
  (exists a e, last ops Bounds = ReadS (Some a) (Some e) /\ e < a) /\
  snd (run (binit c fill) ops) <> snd (spec_run (sinit c fill) ops).
Proof.
  exists 3, 0, [Append [1;2;3;4;5]; ReadS (Some 2) (Some 1)].
  split; [lia|]. split; [reflexivity|]. split; [exists 2, 1; split; [reflexivity|lia]|].
  vm_compute. intros H. discriminate H.
Qed.

(* the abstract stream is a function of the history alone; without invalidations it is the
   concatenation of everything appended *)
Lemma stream_is_history : forall c fill ops,
  stream (fst (spec_run (sinit c fill) ops)) = logical ops /\
  (no_invalidate ops = true -> logical ops = appended ops).
Proof.
  intros c fill ops. split; [apply spec_stream_logical|apply logical_no_invalidate].
Qed.
