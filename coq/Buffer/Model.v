(* Model of psiaudio.buffer.SignalBuffer (one channel; a multichannel buffer applies the
   same index arithmetic to every row).  All times are in samples: the harness passes
   times k/fs and Common/FloatGrid covers round((k/fs)*fs) = k.
   Definitions only; proofs in Buffer/Proofs.v.

   Python field        model
   _buffer_samples     cap
   _samples            S
   _ilb                ilb
   _buffer             buf   (length cap; NaN written by _invalidate is the value `nanv`) *)
From PV Require Export Common.PySlice.

Definition nanv : Z := -999999.

Record bstate := { cap : Z; S : Z; ilb : Z; buf : list Z; fillv : Z }.

Definition binit (c fill : Z) : bstate :=
  {| cap := c; S := 0; ilb := c; buf := repeat fill (Z.to_nat c); fillv := fill |}.

Inductive out :=
| ONone
| OData (d : list Z)
| OIndexError
| OValueError
| OBounds (lb ub : Z).

Definition samples_lb (b : bstate) : Z := S b - cap b + ilb b.
Definition samples_ub (b : bstate) : Z := S b.
Definition samples_to_index (b : bstate) (i : Z) : Z := i - S b + cap b.

(* append_data, n = len data >= 1 *)
Definition append (b : bstate) (data : list Z) : bstate :=
  let n := zlen data in
  if n >? cap b then
    {| cap := cap b; S := S b + n; ilb := 0;
       buf := py_slice (Some (- cap b)) None data; fillv := fillv b |}
  else
    (* buf[:-n] = buf[n:] ; buf[-n:] = data *)
    {| cap := cap b; S := S b + n; ilb := Z.max 0 (ilb b - n);
       buf := py_slice (Some n) None (buf b) ++ data; fillv := fillv b |}.

(* _invalidate(i) on buffer index i.  `repaired` selects the test that decides "nothing survives":
     unrepaired:  if i <= 0        repaired:  if i <= self._ilb *)
Definition invalidate_idx (repaired : bool) (b : bstate) (i : Z) : bstate :=
  if (if repaired then i <=? ilb b else i <=? 0) then
    {| cap := cap b; S := S b; ilb := cap b;
       buf := repeat (fillv b) (Z.to_nat (cap b)); fillv := fillv b |}
  else
    (* buf[-i:] = buf[:i] ; buf[:-i] = nan *)
    {| cap := cap b; S := S b; ilb := ilb b + cap b - i;
       buf := repeat nanv (Z.to_nat (cap b - i)) ++ py_slice None (Some i) (buf b);
       fillv := fillv b |}.

Definition invalidate_samples_gen (repaired : bool) (b : bstate) (i : Z) : bstate :=
  if i >=? S b then b
  else
    let bi := samples_to_index b i in
    let b' := invalidate_idx repaired b bi in
    let di := S b' - i in
    {| cap := cap b'; S := S b' - di; ilb := ilb b'; buf := buf b'; fillv := fillv b' |}.
Definition invalidate_samples := invalidate_samples_gen true.

(* get_range_samples(lb, ub) *)
Definition get_range_samples (b : bstate) (lb ub : option Z) : out :=
  let lb := match lb with None => samples_lb b | Some x => x end in
  let ub := match ub with None => samples_ub b | Some x => x end in
  let i := samples_to_index b lb in
  let j := samples_to_index b ub in
  if i <? ilb b then OIndexError
  else if j >? cap b then OIndexError
  else OData (py_slice (Some i) (Some j) (buf b)).

(* get_range_filled in samples.
   unrepaired:  lpad = max(slb-ilb,0); elb = max(slb,ilb); rpad = max(iub-sub,0); eub = min(sub,iub)
   repaired:    lpad = min(max(slb-ilb,0),iub-ilb); elb = min(max(slb,ilb),sub);
                rpad = min(max(iub-sub,0),iub-ilb); eub = min(max(slb,iub),sub) *)
Definition get_range_filled_gen (repaired : bool) (b : bstate) (qlb qub : Z) (fill : Z) : out :=
  let slb := samples_lb b in
  let sub := samples_ub b in
  let '(lpad, elb, rpad, eub) :=
    if repaired then
      (Z.min (Z.max (slb - qlb) 0) (qub - qlb), Z.min (Z.max slb qlb) sub,
       Z.min (Z.max (qub - sub) 0) (qub - qlb), Z.min (Z.max slb qub) sub)
    else (Z.max (slb - qlb) 0, Z.max slb qlb, Z.max (qub - sub) 0, Z.min sub qub) in
  match get_range_samples b (Some elb) (Some eub) with
  | OData d =>
    if (lpad <? 0) || (rpad <? 0) then OValueError   (* np.pad raises ValueError on negative pad *)
    else OData (repeat fill (Z.to_nat lpad) ++ d ++ repeat fill (Z.to_nat rpad))
  | o => o
  end.
Definition get_range_filled := get_range_filled_gen true.

(* get_latest(lb, ub, fill) relative to the newest sample (lb, ub in samples, usually <= 0) *)
Definition get_latest (b : bstate) (lb ub : Z) (fill : option Z) : out :=
  match fill with
  | None => get_range_samples b (Some (lb + S b)) (Some (ub + S b))
  | Some f => get_range_filled b (lb + S b) (ub + S b) f
  end.

(* resize(m samples) *)
Definition resize (b : bstate) (m : Z) : bstate :=
  match get_latest b (- m) 0 (Some (fillv b)) with
  | OData d =>
    let new := zlen d in
    {| cap := new; S := S b; ilb := Z.max 0 (ilb b + (new - cap b)); buf := d; fillv := fillv b |}
  | _ => b
  end.

Inductive op :=
| Append (data : list Z)
| Invalidate (i : Z)
| Resize (m : Z)
| ReadS (lb ub : option Z)
| ReadFilled (lb ub : Z) (fill : Z)
| Latest (lb ub : Z) (fill : option Z)
| Bounds.

Definition step (b : bstate) (o : op) : bstate * out :=
  match o with
  | Append d => (append b d, ONone)
  | Invalidate i => (invalidate_samples b i, ONone)
  | Resize m => (resize b m, ONone)
  | ReadS lb ub => (b, get_range_samples b lb ub)
  | ReadFilled lb ub f => (b, get_range_filled b lb ub f)
  | Latest lb ub f => (b, get_latest b lb ub f)
  | Bounds => (b, OBounds (samples_lb b) (samples_ub b))
  end.

Fixpoint run (b : bstate) (ops : list op) : bstate * list out :=
  match ops with
  | [] => (b, [])
  | o :: t => let '(b1, r) := step b o in let '(b2, rs) := run b1 t in (b2, r :: rs)
  end.

(* the code before the two repairs recorded in known_findings.txt *)
Definition step_unrepaired (b : bstate) (o : op) : bstate * out :=
  match o with
  | Invalidate i => (invalidate_samples_gen false b i, ONone)
  | ReadFilled lb ub f => (b, get_range_filled_gen false b lb ub f)
  | _ => step b o
  end.
Fixpoint run_unrepaired (b : bstate) (ops : list op) : bstate * list out :=
  match ops with
  | [] => (b, [])
  | o :: t => let '(b1, r) := step_unrepaired b o in
              let '(b2, rs) := run_unrepaired b1 t in (b2, r :: rs)
  end.

(* ---- comparison used by the generated correspondence files ---- *)
Definition eqb_out (a b : out) : bool :=
  match a, b with
  | ONone, ONone => true
  | OData x, OData y => eqb_listZ x y
  | OIndexError, OIndexError => true
  | OValueError, OValueError => true
  | OBounds a1 a2, OBounds b1 b2 => (a1 =? b1) && (a2 =? b2)
  | _, _ => false
  end.
Definition check_run (c fill : Z) (ops : list op) (got : list out) : bool :=
  eqb_list eqb_out (snd (run (binit c fill) ops)) got.
