(* Specifications used by the extension theorems of C14 (Buffer/ProofsX.v).  Definitions only.
   Nothing here changes Buffer/Model.v or Buffer/Spec.v. *)
From PV Require Export Buffer.Spec.

(* The logical stream as a function of the HISTORY ALONE (no buffer, no capacity): appends are
   concatenated, an invalidation at sample i (below the current length) cuts the stream back to its
   first i samples, everything else leaves it alone. *)
Definition stream_step (st : list Z) (o : op) : list Z :=
  match o with
  | Append d => st ++ d
  | Invalidate i => if i >=? zlen st then st else firstn (Z.to_nat i) st
  | _ => st
  end.
Definition logical (ops : list op) : list Z := fold_left stream_step ops [].

(* everything that was ever appended, in order *)
Definition appended (ops : list op) : list Z :=
  flat_map (fun o => match o with Append d => d | _ => [] end) ops.
Definition no_invalidate (ops : list op) : bool :=
  forallb (fun o => match o with Invalidate _ => false | _ => true end) ops.

(* samples [a, e) of a stream (empty when e <= a) *)
Definition slice (st : list Z) (a e : Z) : list Z :=
  firstn (Z.to_nat (e - a)) (skipn (Z.to_nat a) st).

(* sample i of the stream if lb <= i < ub, else the fill value *)
Definition sample_or (st : list Z) (lb ub fill : Z) (i : Z) : Z :=
  if (lb <=? i) && (i <? ub) then nth (Z.to_nat i) st 0 else fill.

(* Wider well-formedness: plain range reads (ReadS, Latest without fill) may have CROSSED bounds
   (lower > upper) as long as the upper bound is not more than a capacity behind the newest sample,
   i.e. its buffer index is not negative.  Everything else as wf_at. *)
Definition read_ok (s : spec) (a e : Z) : bool := (a <=? e) || (slen s - scap s <=? e).
Definition wf_at_x (s : spec) (o : op) : bool :=
  wf_at s o ||
  match o with
  | ReadS lb ub =>
    read_ok s (match lb with None => lo s | Some x => x end)
              (match ub with None => slen s | Some x => x end)
  | Latest a e None => read_ok s (a + slen s) (e + slen s)
  | _ => false
  end.
Fixpoint wf_hist_x (s : spec) (ops : list op) : bool :=
  match ops with
  | [] => true
  | o :: t => wf_at_x s o && wf_hist_x (spec_step s o) t
  end.
