(* Proofs for property C14: the ring-buffer model (Buffer/Model.v) refines the abstract
   specification (Buffer/Spec.v).  Stdlib only, no axioms. *)
From Coq Require Import ZArith List Bool Lia ZifyBool.
From PV Require Import Buffer.Model Buffer.Spec.
Import ListNotations.
Open Scope Z_scope.

(* NB: Buffer.Model declares a record field called [S]; the successor of nat is [Datatypes.S] here. *)

(* ------------------------------------------------------------------ *)
(* 1. lists: zlen, skipn, firstn, repeat                               *)
(* ------------------------------------------------------------------ *)

Lemma zlen_nonneg {A} (l : list A) : 0 <= zlen l.
Proof. unfold zlen. lia. Qed.

Lemma zlen_app {A} (l1 l2 : list A) : zlen (l1 ++ l2) = zlen l1 + zlen l2.
Proof. unfold zlen. rewrite app_length. lia. Qed.

Lemma zlen_repeat {A} (x : A) (k : Z) : 0 <= k -> zlen (repeat x (Z.to_nat k)) = k.
Proof. intros Hk. unfold zlen. rewrite repeat_length. lia. Qed.

Lemma zlen_skipn {A} (k : Z) (l : list A) :
  0 <= k <= zlen l -> zlen (skipn (Z.to_nat k) l) = zlen l - k.
Proof. unfold zlen. intros Hk. rewrite skipn_length. lia. Qed.

Lemma zlen_firstn {A} (k : Z) (l : list A) :
  0 <= k <= zlen l -> zlen (firstn (Z.to_nat k) l) = k.
Proof. unfold zlen. intros Hk. rewrite firstn_length. lia. Qed.

Lemma zlen_nonempty {A} (l : list A) : l <> [] -> 1 <= zlen l.
Proof. destruct l as [|x l]; intros H; [congruence|]. unfold zlen. cbn [length]. lia. Qed.

Lemma skipn_skipn_nat {A} : forall (y x : nat) (l : list A),
  skipn x (skipn y l) = skipn (y + x) l.
Proof.
  induction y as [|y IH]; intros x l.
  - reflexivity.
  - destruct l as [|a l].
    + cbn [Nat.add]. rewrite !skipn_nil. reflexivity.
    + cbn [Nat.add]. rewrite !skipn_cons. apply IH.
Qed.

Lemma zskipn_skipn {A} (x y : Z) (l : list A) : 0 <= x -> 0 <= y ->
  skipn (Z.to_nat x) (skipn (Z.to_nat y) l) = skipn (Z.to_nat (y + x)) l.
Proof. intros Hx Hy. rewrite skipn_skipn_nat. f_equal. lia. Qed.

(* if two lists agree from positions p resp. q on, they agree from every later pair of positions *)
Lemma skipn_shift {A} (l1 l2 : list A) (p q k : Z) : 0 <= p -> 0 <= q -> p <= k ->
  skipn (Z.to_nat p) l1 = skipn (Z.to_nat q) l2 ->
  skipn (Z.to_nat k) l1 = skipn (Z.to_nat (k - p + q)) l2.
Proof.
  intros Hp Hq Hk E.
  transitivity (skipn (Z.to_nat (k - p)) (skipn (Z.to_nat p) l1)).
  - rewrite zskipn_skipn by lia. f_equal. f_equal. lia.
  - rewrite E. rewrite zskipn_skipn by lia. f_equal. f_equal. lia.
Qed.

Lemma zskipn_app_le {A} (k : Z) (l1 l2 : list A) : 0 <= k <= zlen l1 ->
  skipn (Z.to_nat k) (l1 ++ l2) = skipn (Z.to_nat k) l1 ++ l2.
Proof.
  unfold zlen. intros Hk. rewrite skipn_app.
  replace (Z.to_nat k - length l1)%nat with 0%nat by lia. rewrite skipn_O. reflexivity.
Qed.

Lemma zskipn_app_ge {A} (k : Z) (l1 l2 : list A) : zlen l1 <= k ->
  skipn (Z.to_nat k) (l1 ++ l2) = skipn (Z.to_nat (k - zlen l1)) l2.
Proof.
  unfold zlen. intros Hk. rewrite skipn_app.
  rewrite (skipn_all2 l1) by lia. cbn [app]. f_equal. lia.
Qed.

Lemma zskipn_all {A} (k : Z) (l : list A) : zlen l <= k -> skipn (Z.to_nat k) l = [].
Proof. unfold zlen. intros Hk. apply skipn_all2. lia. Qed.

Lemma zfirstn_all {A} (k : Z) (l : list A) : zlen l <= k -> firstn (Z.to_nat k) l = l.
Proof. unfold zlen. intros Hk. apply firstn_all2. lia. Qed.

Lemma zskipn_firstn {A} (m n : Z) (l : list A) : 0 <= m <= n ->
  skipn (Z.to_nat m) (firstn (Z.to_nat n) l) = firstn (Z.to_nat (n - m)) (skipn (Z.to_nat m) l).
Proof. intros H. rewrite skipn_firstn_comm. f_equal. lia. Qed.

Lemma skipn_nth_cons {A} (d : A) : forall (k : nat) (l : list A), (k < length l)%nat ->
  skipn k l = nth k l d :: skipn (Datatypes.S k) l.
Proof.
  induction k as [|k IH]; intros l H; destruct l as [|x l]; cbn [length] in H; try lia.
  - reflexivity.
  - rewrite !skipn_cons. cbn [nth]. apply IH. lia.
Qed.

(* ------------------------------------------------------------------ *)
(* 2. zr / zrange                                                      *)
(* ------------------------------------------------------------------ *)

Lemma zr_length {A} (g : Z -> A) : forall (n : nat) (a : Z), length (zr g a n) = n.
Proof. induction n as [|n IH]; intros a; cbn [zr length]; [reflexivity|]. rewrite IH. reflexivity. Qed.

Lemma zlen_zrange {A} (g : Z -> A) (a n : Z) : 0 <= n -> zlen (zrange g a n) = n.
Proof. intros Hn. unfold zlen, zrange. rewrite zr_length. lia. Qed.

Lemma zr_app {A} (g : Z -> A) : forall (n1 n2 : nat) (a : Z),
  zr g a (n1 + n2) = zr g a n1 ++ zr g (a + Z.of_nat n1) n2.
Proof.
  induction n1 as [|n1 IH]; intros n2 a.
  - cbn [Nat.add zr app]. f_equal. lia.
  - cbn [Nat.add zr app]. f_equal. rewrite IH. f_equal. f_equal. lia.
Qed.

Lemma zrange_app {A} (g : Z -> A) (a n1 n2 : Z) : 0 <= n1 -> 0 <= n2 ->
  zrange g a (n1 + n2) = zrange g a n1 ++ zrange g (a + n1) n2.
Proof.
  intros H1 H2. unfold zrange. rewrite Z2Nat.inj_add by lia. rewrite zr_app.
  f_equal. f_equal. lia.
Qed.

Lemma zr_ext {A} (g h : Z -> A) : forall (n : nat) (a : Z),
  (forall i, a <= i < a + Z.of_nat n -> g i = h i) -> zr g a n = zr h a n.
Proof.
  induction n as [|n IH]; intros a H; cbn [zr]; [reflexivity|]. f_equal.
  - apply H. lia.
  - apply IH. intros i Hi. apply H. lia.
Qed.

Lemma zr_const {A} (f : A) : forall (n : nat) (a : Z), zr (fun _ => f) a n = repeat f n.
Proof. induction n as [|n IH]; intros a; cbn [zr repeat]; [reflexivity|]. rewrite IH. reflexivity. Qed.

Lemma zr_nth (l : list Z) : forall (n : nat) (a : Z), 0 <= a -> a + Z.of_nat n <= zlen l ->
  zr (fun i => nth (Z.to_nat i) l 0) a n = firstn n (skipn (Z.to_nat a) l).
Proof.
  unfold zlen. induction n as [|n IH]; intros a Ha Hn; cbn [zr]; [reflexivity|].
  rewrite (skipn_nth_cons 0 (Z.to_nat a) l) by lia. rewrite firstn_cons. f_equal.
  rewrite IH by lia. f_equal. f_equal. lia.
Qed.

Lemma skipn_zr {A} (g : Z -> A) : forall (k n : nat) (a : Z),
  skipn k (zr g a n) = zr g (a + Z.of_nat k) (n - k).
Proof.
  induction k as [|k IH]; intros n a.
  - rewrite skipn_O. rewrite Nat.sub_0_r. f_equal. lia.
  - destruct n as [|n].
    + cbn [zr Nat.sub]. rewrite skipn_nil. reflexivity.
    + cbn [zr]. rewrite skipn_cons. rewrite IH. cbn [Nat.sub]. f_equal. lia.
Qed.

Lemma zskipn_zrange {A} (g : Z -> A) (a n k : Z) : 0 <= k ->
  skipn (Z.to_nat k) (zrange g a n) = zrange g (a + k) (n - k).
Proof.
  intros Hk. unfold zrange. rewrite skipn_zr. f_equal; lia.
Qed.

(* ------------------------------------------------------------------ *)
(* 3. Python slices actually used by the model                         *)
(* ------------------------------------------------------------------ *)

Lemma py_slice_mid {A} (l : list A) (i j : Z) : 0 <= i -> i <= j -> j <= zlen l ->
  py_slice (Some i) (Some j) l = firstn (Z.to_nat (j - i)) (skipn (Z.to_nat i) l).
Proof.
  intros Hi Hij Hj. unfold py_slice, py_lo, py_hi, adj_bound. cbv zeta.
  destruct (i <? 0) eqn:E1; [lia|]. destruct (j <? 0) eqn:E2; [lia|].
  rewrite !Z.min_l by lia. reflexivity.
Qed.

Lemma py_slice_from {A} (l : list A) (n : Z) : 0 <= n <= zlen l ->
  py_slice (Some n) None l = skipn (Z.to_nat n) l.
Proof.
  intros Hn. unfold py_slice, py_lo, py_hi, adj_bound. cbv zeta.
  destruct (n <? 0) eqn:E1; [lia|]. rewrite Z.min_l by lia.
  apply zfirstn_all. rewrite zlen_skipn by lia. lia.
Qed.

Lemma py_slice_upto {A} (l : list A) (i : Z) : 0 <= i <= zlen l ->
  py_slice None (Some i) l = firstn (Z.to_nat i) l.
Proof.
  intros Hi. unfold py_slice, py_lo, py_hi, adj_bound. cbv zeta.
  destruct (i <? 0) eqn:E1; [lia|]. rewrite Z.min_l by lia.
  rewrite Z.sub_0_r. reflexivity.
Qed.

Lemma py_slice_last {A} (l : list A) (c : Z) : 1 <= c <= zlen l ->
  py_slice (Some (- c)) None l = skipn (Z.to_nat (zlen l - c)) l.
Proof.
  intros Hc. unfold py_slice, py_lo, py_hi, adj_bound. cbv zeta.
  destruct (- c <? 0) eqn:E1; [|lia]. rewrite Z.max_r by lia.
  replace (- c + zlen l) with (zlen l - c) by lia.
  apply zfirstn_all. rewrite zlen_skipn by lia. lia.
Qed.

(* ------------------------------------------------------------------ *)
(* 4. the specification's read function                                *)
(* ------------------------------------------------------------------ *)

Lemma zrange_sget_fill (s : spec) (f a n : Z) :
  (forall i, a <= i < a + n -> i < lo s \/ slen s <= i) ->
  zrange (sget s f) a n = repeat f (Z.to_nat n).
Proof.
  intros H. unfold zrange. rewrite <- (zr_const f (Z.to_nat n) a). apply zr_ext.
  intros i Hi. unfold sget.
  destruct ((lo s <=? i) && (i <? slen s)) eqn:E; [|reflexivity].
  exfalso. specialize (H i). lia.
Qed.

Lemma zrange_sget_window (s : spec) (f a n : Z) :
  0 <= lo s -> lo s <= a -> 0 <= n -> a + n <= slen s ->
  zrange (sget s f) a n = swindow s a (a + n).
Proof.
  intros H0 Ha Hn He. unfold zrange, swindow. replace (a + n - a) with n by lia.
  rewrite <- zr_nth by (unfold slen in He; lia). apply zr_ext.
  intros i Hi. unfold sget.
  destruct ((lo s <=? i) && (i <? slen s)) eqn:E; [reflexivity|lia].
Qed.

(* arithmetic of the repaired get_range_filled: pads and effective bounds *)
Lemma filled_arith (l sl a e : Z) : 0 <= l <= sl -> a <= e ->
  let lpad := Z.min (Z.max (l - a) 0) (e - a) in
  let elb := Z.min (Z.max l a) sl in
  let rpad := Z.min (Z.max (e - sl) 0) (e - a) in
  let eub := Z.min (Z.max l e) sl in
  0 <= lpad /\ 0 <= rpad /\ l <= elb /\ elb <= eub /\ eub <= sl /\
  lpad + ((eub - elb) + rpad) = e - a /\
  (eub - elb = 0 \/ a + lpad = elb) /\
  (lpad = 0 \/ a + lpad <= l) /\
  (rpad = 0 \/ sl <= a + lpad + (eub - elb)).
Proof. intros H1 H2. cbv zeta. lia. Qed.

Example filled_arith_ex : 0 <= 3 <= 6 /\ 0 <= 8. Proof. lia. Qed.

(* zrange of sget = fill ++ window ++ fill *)
Lemma zrange_sget_split (s : spec) (f a e lpad elb rpad eub : Z) :
  0 <= lo s <= slen s -> a <= e ->
  0 <= lpad -> 0 <= rpad -> lo s <= elb -> elb <= eub -> eub <= slen s ->
  lpad + ((eub - elb) + rpad) = e - a ->
  (eub - elb = 0 \/ a + lpad = elb) ->
  (lpad = 0 \/ a + lpad <= lo s) ->
  (rpad = 0 \/ slen s <= a + lpad + (eub - elb)) ->
  zrange (sget s f) a (e - a) =
  repeat f (Z.to_nat lpad) ++ swindow s elb eub ++ repeat f (Z.to_nat rpad).
Proof.
  intros Hlo Hae Hl Hr H1 H2 H3 Hsum Hmid Hleft Hright.
  rewrite <- Hsum. rewrite zrange_app by lia. rewrite zrange_app by lia.
  f_equal; [|f_equal].
  - apply zrange_sget_fill. intros i Hi. lia.
  - destruct Hmid as [Hm|Hm].
    + rewrite Hm. unfold zrange, swindow. rewrite Hm. reflexivity.
    + rewrite Hm. rewrite zrange_sget_window by lia. f_equal. lia.
  - apply zrange_sget_fill. intros i Hi. lia.
Qed.

(* ------------------------------------------------------------------ *)
(* 5. simulation relation                                              *)
(* ------------------------------------------------------------------ *)

Record Rel (b : bstate) (s : spec) : Prop := {
  R_cap : cap b = scap s;
  R_cap1 : 1 <= cap b;
  R_S : S b = zlen (stream s);
  R_ilb : 0 <= ilb b <= cap b;
  R_len : zlen (buf b) = cap b;
  R_lo : S b - cap b + ilb b = lo s;
  R_lo0 : 0 <= lo s;
  R_fill : fillv b = sfill s;
  R_tail : skipn (Z.to_nat (ilb b)) (buf b) = skipn (Z.to_nat (lo s)) (stream s) }.

Lemma Rel_init (c f : Z) : 1 <= c -> Rel (binit c f) (sinit c f).
Proof.
  intros Hc. constructor; cbn [binit sinit cap S ilb buf fillv stream lo scap sfill]; try lia; try reflexivity.
  - apply zlen_repeat. lia.
  - rewrite zskipn_all by (rewrite zlen_repeat; lia). reflexivity.
Qed.

Example Rel_ex : Rel (binit 3 (-1)) (sinit 3 (-1)).
Proof. apply Rel_init. lia. Qed.

Lemma Rel_lo_le (b : bstate) (s : spec) : Rel b s -> lo s <= slen s.
Proof. intros R. destruct R. unfold slen. lia. Qed.

Lemma Rel_lb (b : bstate) (s : spec) : Rel b s -> samples_lb b = lo s.
Proof. intros R. destruct R. unfold samples_lb. lia. Qed.

Lemma Rel_ub (b : bstate) (s : spec) : Rel b s -> samples_ub b = slen s.
Proof. intros R. destruct R. unfold samples_ub, slen. lia. Qed.

(* ------------------------------------------------------------------ *)
(* 6. reads                                                            *)
(* ------------------------------------------------------------------ *)

Lemma read_samples (b : bstate) (s : spec) (a e : Z) : Rel b s -> a <= e ->
  get_range_samples b (Some a) (Some e) = spec_read s a e.
Proof.
  intros R Hae. destruct R as [Rcap Rcap1 RS Rilb Rlen Rlo Rlo0 Rfill Rtail].
  unfold get_range_samples, spec_read, samples_to_index, slen. cbv beta iota zeta.
  destruct (a - S b + cap b <? ilb b) eqn:E1.
  { destruct (lo s <=? a) eqn:E2; [lia|]. reflexivity. }
  destruct (e - S b + cap b >? cap b) eqn:E2.
  { destruct (lo s <=? a) eqn:E3; destruct (e <=? zlen (stream s)) eqn:E4; try lia; reflexivity. }
  destruct (lo s <=? a) eqn:E3; [|lia]. destruct (e <=? zlen (stream s)) eqn:E4; [|lia].
  cbn [andb]. f_equal. rewrite py_slice_mid by lia. unfold swindow.
  rewrite (skipn_shift (buf b) (stream s) (ilb b) (lo s) (a - S b + cap b)) by (lia || exact Rtail).
  f_equal; [lia|]. f_equal. lia.
Qed.

Lemma read_filled (b : bstate) (s : spec) (a e f : Z) : Rel b s -> a <= e ->
  get_range_filled b a e f = OData (zrange (sget s f) a (e - a)).
Proof.
  intros R Hae.
  pose proof (Rel_lo_le b s R) as Hle. pose proof (R_lo0 b s R) as H0.
  unfold get_range_filled, get_range_filled_gen. cbv beta iota zeta.
  rewrite (Rel_lb b s R), (Rel_ub b s R).
  pose proof (filled_arith (lo s) (slen s) a e (conj H0 Hle) Hae) as HA. cbv zeta in HA.
  set (lpad := Z.min (Z.max (lo s - a) 0) (e - a)) in *.
  set (elb := Z.min (Z.max (lo s) a) (slen s)) in *.
  set (rpad := Z.min (Z.max (e - slen s) 0) (e - a)) in *.
  set (eub := Z.min (Z.max (lo s) e) (slen s)) in *.
  destruct HA as (A1 & A2 & A3 & A4 & A5 & A6 & A7 & A8 & A9).
  rewrite (read_samples b s elb eub R A4). unfold spec_read.
  destruct (lo s <=? elb) eqn:E1; [|lia]. destruct (eub <=? slen s) eqn:E2; [|lia].
  cbn [andb].
  destruct (lpad <? 0) eqn:E3; [lia|]. destruct (rpad <? 0) eqn:E4; [lia|]. cbn [orb].
  f_equal. symmetry. apply zrange_sget_split; assumption || lia.
Qed.

(* ------------------------------------------------------------------ *)
(* 7. state-changing operations preserve the relation                  *)
(* ------------------------------------------------------------------ *)

Lemma Rel_append (b : bstate) (s : spec) (d : list Z) : Rel b s -> d <> [] ->
  Rel (append b d) (spec_step s (Append d)).
Proof.
  intros R Hd. pose proof (zlen_nonempty d Hd) as Hn.
  destruct R as [Rcap Rcap1 RS Rilb Rlen Rlo Rlo0 Rfill Rtail].
  unfold append. cbv zeta. cbn [spec_step].
  destruct (zlen d >? cap b) eqn:E.
  - (* more data than capacity: keep the last cap samples *)
    constructor; cbn [cap S ilb buf fillv stream lo scap sfill]; rewrite ?zlen_app; try lia.
    + rewrite py_slice_last by lia. rewrite zlen_skipn by lia. lia.
    + rewrite py_slice_last by lia. rewrite Z.max_r by lia.
      rewrite zskipn_app_ge by lia. cbn [Z.to_nat]. rewrite skipn_O.
      f_equal. f_equal. lia.
  - (* shift left by n, write data at the end *)
    pose proof (zlen_nonneg (stream s)) as Hs.
    constructor; cbn [cap S ilb buf fillv stream lo scap sfill]; rewrite ?zlen_app; try lia.
    + rewrite py_slice_from by lia. rewrite zlen_skipn by lia. lia.
    + rewrite py_slice_from by lia.
      rewrite zskipn_app_le by (rewrite zlen_skipn by lia; lia).
      rewrite zskipn_app_le by lia. f_equal.
      rewrite zskipn_skipn by lia.
      rewrite (skipn_shift (buf b) (stream s) (ilb b) (lo s)) by (lia || exact Rtail).
      f_equal. f_equal. lia.
Qed.

Lemma Rel_invalidate (b : bstate) (s : spec) (i : Z) : Rel b s -> 0 <= i ->
  Rel (invalidate_samples b i) (spec_step s (Invalidate i)).
Proof.
  intros R Hi. pose proof R as R'.
  destruct R as [Rcap Rcap1 RS Rilb Rlen Rlo Rlo0 Rfill Rtail].
  unfold invalidate_samples, invalidate_samples_gen. cbn [spec_step]. unfold slen.
  destruct (i >=? S b) eqn:E1.
  { destruct (i >=? zlen (stream s)) eqn:E2; [exact R'|lia]. }
  destruct (i >=? zlen (stream s)) eqn:E2; [lia|].
  cbv zeta. unfold invalidate_idx, samples_to_index.
  destruct (i - S b + cap b <=? ilb b) eqn:E3.
  - (* nothing survives *)
    constructor; cbn [cap S ilb buf fillv stream lo scap sfill]; try lia.
    + rewrite zlen_firstn by lia. lia.
    + apply zlen_repeat. lia.
    + rewrite zskipn_all by (rewrite zlen_repeat; lia).
      rewrite zskipn_all; [reflexivity|]. rewrite zlen_firstn by lia. lia.
  - (* samples lo .. i survive and move to the end of the ring *)
    constructor; cbn [cap S ilb buf fillv stream lo scap sfill]; try lia.
    + rewrite zlen_firstn by lia. lia.
    + rewrite zlen_app. rewrite zlen_repeat by lia. rewrite py_slice_upto by lia.
      rewrite zlen_firstn by lia. lia.
    + rewrite py_slice_upto by lia. rewrite Z.min_l by lia.
      rewrite zskipn_app_ge by (rewrite zlen_repeat by lia; lia).
      rewrite zlen_repeat by lia.
      replace (ilb b + cap b - (i - S b + cap b) - (cap b - (i - S b + cap b))) with (ilb b) by lia.
      rewrite zskipn_firstn by lia. rewrite zskipn_firstn by lia.
      rewrite Rtail. f_equal. lia.
Qed.

Lemma Rel_resize (b : bstate) (s : spec) (m : Z) : Rel b s -> 1 <= m ->
  Rel (resize b m) (spec_step s (Resize m)).
Proof.
  intros R Hm.
  pose proof (Rel_lo_le b s R) as Hle. unfold slen in Hle.
  unfold resize, get_latest. rewrite (read_filled b s _ _ _ R) by lia.
  destruct R as [Rcap Rcap1 RS Rilb Rlen Rlo Rlo0 Rfill Rtail].
  cbn [spec_step]. unfold slen.
  replace (0 + S b - (- m + S b)) with m by lia.
  cbv zeta. rewrite zlen_zrange by lia.
  constructor; cbn [cap S ilb buf fillv stream lo scap sfill]; try lia.
  - apply zlen_zrange. lia.
  - rewrite zskipn_zrange by lia.
    set (k := Z.max 0 (ilb b + (m - cap b))).
    set (l' := Z.max (lo s) (zlen (stream s) - m)).
    assert (Hk : - m + S b + k = l') by (subst k l'; lia).
    assert (Hl : lo s <= l' <= zlen (stream s)) by (subst l'; lia).
    rewrite Hk. replace (m - k) with (zlen (stream s) - l') by lia.
    rewrite zrange_sget_window by (unfold slen; lia).
    unfold swindow. replace (l' + (zlen (stream s) - l') - l') with (zlen (stream s) - l') by lia.
    apply zfirstn_all. rewrite zlen_skipn by lia. lia.
Qed.

(* ------------------------------------------------------------------ *)
(* 8. one step, then whole histories                                   *)
(* ------------------------------------------------------------------ *)

Lemma step_sim (b : bstate) (s : spec) (o : op) : Rel b s -> wf_at s o = true ->
  Rel (fst (step b o)) (spec_step s o) /\ snd (step b o) = spec_out s o.
Proof.
  intros R W. unfold wf_at in W. apply andb_true_iff in W. destruct W as [W1 W2].
  pose proof (Rel_lo_le b s R) as Hle.
  destruct o as [d|i|m|lb ub|a e f|a e f|]; cbn [step fst snd spec_out wf_op] in *.
  - split; [|reflexivity]. apply Rel_append; [exact R|]. destruct d; congruence.
  - split; [|reflexivity]. apply Rel_invalidate; [exact R|lia].
  - split; [|reflexivity]. apply Rel_resize; [exact R|lia].
  - split; [exact R|].
    destruct lb as [a|]; destruct ub as [e|]; unfold get_range_samples at 1;
      cbv beta iota zeta; rewrite ?(Rel_lb b s R), ?(Rel_ub b s R).
    + apply (read_samples b s a e R). lia.
    + apply (read_samples b s a (slen s) R). lia.
    + apply (read_samples b s (lo s) e R). lia.
    + apply (read_samples b s (lo s) (slen s) R). lia.
  - split; [exact R|]. apply read_filled; [exact R|lia].
  - split; [exact R|]. unfold get_latest. rewrite (R_S b s R). fold (slen s).
    destruct f as [f|].
    + rewrite (read_filled b s _ _ _ R) by lia. f_equal. f_equal. lia.
    + apply read_samples; [exact R|lia].
  - split; [exact R|]. rewrite (Rel_lb b s R), (Rel_ub b s R). reflexivity.
Qed.

Example step_sim_ex : Rel (binit 3 (-1)) (sinit 3 (-1)) /\ wf_at (sinit 3 (-1)) (Append [1; 2]) = true.
Proof. split; [apply Rel_ex|reflexivity]. Qed.

Lemma run_sim : forall (ops : list op) (b : bstate) (s : spec), Rel b s -> wf_hist s ops = true ->
  Rel (fst (run b ops)) (fst (spec_run s ops)) /\ snd (run b ops) = snd (spec_run s ops).
Proof.
  induction ops as [|o t IH]; intros b s R W.
  - cbn [run spec_run fst snd]. split; [exact R|reflexivity].
  - cbn [wf_hist] in W. apply andb_true_iff in W. destruct W as [W1 W2].
    destruct (step_sim b s o R W1) as [R1 O1].
    specialize (IH (fst (step b o)) (spec_step s o) R1 W2). destruct IH as [R2 O2].
    cbn [run spec_run].
    destruct (step b o) as [b1 r] eqn:Es. cbn [fst snd] in *.
    destruct (run b1 t) as [b2 rs] eqn:Er.
    destruct (spec_run (spec_step s o) t) as [s2 rs'] eqn:Esr.
    cbn [fst snd] in *. split; [exact R2|]. rewrite O1, O2. reflexivity.
Qed.

(* ------------------------------------------------------------------ *)
(* 9. the lemmas Props/C14.v closes with                               *)
(* ------------------------------------------------------------------ *)

Lemma refines_spec : forall c fill ops, 1 <= c -> wf_hist (sinit c fill) ops = true ->
  snd (run (binit c fill) ops) = snd (spec_run (sinit c fill) ops).
Proof.
  intros c fill ops Hc W. apply (run_sim ops (binit c fill) (sinit c fill) (Rel_init c fill Hc) W).
Qed.

Lemma spec_bounds : forall c fill ops s, 1 <= c -> wf_hist (sinit c fill) ops = true ->
  fst (spec_run (sinit c fill) ops) = s ->
  0 <= lo s <= slen s /\ slen s - lo s <= scap s /\ 1 <= scap s.
Proof.
  intros c fill ops s Hc W E.
  destruct (run_sim ops (binit c fill) (sinit c fill) (Rel_init c fill Hc) W) as [R _].
  rewrite E in R. destruct R as [Rcap Rcap1 RS Rilb Rlen Rlo Rlo0 Rfill Rtail]. unfold slen. lia.
Qed.

Lemma bounds_after_history : forall c fill ops b, 1 <= c -> wf_hist (sinit c fill) ops = true ->
  fst (run (binit c fill) ops) = b ->
  0 <= samples_lb b <= samples_ub b /\ samples_ub b - samples_lb b <= cap b /\
  samples_ub b = slen (fst (spec_run (sinit c fill) ops)) /\
  samples_lb b = lo (fst (spec_run (sinit c fill) ops)).
Proof.
  intros c fill ops b Hc W E.
  destruct (run_sim ops (binit c fill) (sinit c fill) (Rel_init c fill Hc) W) as [R _].
  rewrite E in R. destruct R as [Rcap Rcap1 RS Rilb Rlen Rlo Rlo0 Rfill Rtail].
  unfold samples_lb, samples_ub, slen. lia.
Qed.

Lemma append_window : forall s d, d <> [] -> 0 <= lo s <= slen s -> 1 <= scap s ->
  let s' := spec_step s (Append d) in
  slen s' - lo s' = Z.min (scap s) (slen s - lo s + zlen d) /\ slen s' = slen s + zlen d.
Proof.
  intros s d Hd Hlo Hc. cbv zeta. cbn [spec_step]. unfold slen in *.
  cbn [stream lo scap]. rewrite zlen_app. lia.
Qed.

Example history_ex : 1 <= 3 /\
  wf_hist (sinit 3 (-1)) [Append [1;2]; Append [3;4;5;6]; Invalidate 5; Resize 5; Append [7];
                          ReadS None None; ReadFilled 0 8 9; Latest (-2) 0 None; Bounds] = true.
Proof. split; [lia|reflexivity]. Qed.

Example append_window_ex : [7] <> [] /\ 0 <= lo (sinit 3 0) <= slen (sinit 3 0) /\ 1 <= scap (sinit 3 0).
Proof. split; [discriminate|]. cbn. lia. Qed.

(* the code before the two repairs does not refine the specification *)
Lemma unrepaired_refuted : exists c fill ops, 1 <= c /\ wf_hist (sinit c fill) ops = true /\
  snd (run_unrepaired (binit c fill) ops) <> snd (spec_run (sinit c fill) ops).
Proof.
  exists 10, (-1),
    [Append [1;2;3;4;5;6;7;8;9;10;11;12;13;14;15;16;17;18;19;20]; Invalidate 15; Invalidate 8; Bounds].
  split; [lia|]. split; [vm_compute; reflexivity|].
  vm_compute. intros H. discriminate H.
Qed.
