(* Proofs for property C14: the ring-buffer model (Buffer/Model.v) refines the abstract
   specification (Buffer/Spec.v).  Stdlib only, no axioms. *)
From Coq Require Import ZArith List Bool Lia ZifyBool.
From PV Require Import Buffer.Model Buffer.Spec.
Import ListNotations.
Open Scope Z_scope.

(* NB: Buffer.Model declares a record field called [S]; the successor of nat is [Datatypes.S] here. *)

(* ------------------------------------------------------------------ *)
(* 1. lists: zlen, skipn, firstn, repeat                               *)
(* ------------------------------------------------------------------ *)

Lemma zlen_nonneg {A} (l : list A) : 0 <= zlen l.
Proof. unfold zlen. lia. Qed.

Lemma zlen_app {A} (l1 l2 : list A) : zlen (l1 ++ l2) = zlen l1 + zlen l2.
Proof. unfold zlen. rewrite app_length. lia. Qed.

Lemma zlen_repeat {A} (x : A) (k : Z) : 0 <= k -> zlen (repeat x (Z.to_nat k)) = k.
Proof. intros Hk. unfold zlen. rewrite repeat_length. lia. Qed.

Lemma zlen_skipn {A} (k : Z) (l : list A) :
  0 <= k <= zlen l -> zlen (skipn (Z.to_nat k) l) = zlen l - k.
Proof. unfold zlen. intros Hk. rewrite skipn_length. lia. Qed.

Lemma zlen_firstn {A} (k : Z) (l : list A) :
  0 <= k <= zlen l -> zlen (firstn (Z.to_nat k) l) = k.
Proof. unfold zlen. intros Hk. rewrite firstn_length. lia. Qed.

Lemma zlen_nonempty {A} (l : list A) : l <> [] -> 1 <= zlen l.
Proof. destruct l as [|x l]; intros H; [congruence|]. unfold zlen. cbn [length]. lia. Qed.

Lemma skipn_skipn_nat {A} : forall (y x : nat) (l : list A),
  skipn x (skipn y l) = skipn (y + x) l.
Proof.
  induction y as [|y IH]; intros x l.
  - reflexivity.
  - destruct l as [|a l].
    + cbn [Nat.add]. rewrite !skipn_nil. reflexivity.
    + cbn [Nat.add]. rewrite !skipn_cons. apply IH.
Qed.

Lemma zskipn_skipn {A} (x y : Z) (l : list A) : 0 <= x -> 0 <= y ->
  skipn (Z.to_nat x) (skipn (Z.to_nat y) l) = skipn (Z.to_nat (y + x)) l.
Proof. intros Hx Hy. rewrite skipn_skipn_nat. f_equal. lia. Qed.

(* if two lists agree from positions p resp. q on, they agree from every later pair of positions *)
Lemma skipn_shift {A} (l1 l2 : list A) (p q k : Z) : 0 <= p -> 0 <= q -> p <= k ->
  skipn (Z.to_nat p) l1 = skipn (Z.to_nat q) l2 ->
  skipn (Z.to_nat k) l1 = skipn (Z.to_nat (k - p + q)) l2.
Proof.
  intros Hp Hq Hk E.
  transitivity (skipn (Z.to_nat (k - p)) (skipn (Z.to_nat p) l1)).
  - rewrite zskipn_skipn by lia. f_equal. f_equal. lia.
  - rewrite E. rewrite zskipn_skipn by lia. f_equal. f_equal. lia.
Qed.

Lemma zskipn_app_le {A} (k : Z) (l1 l2 : list A) : 0 <= k <= zlen l1 ->
  skipn (Z.to_nat k) (l1 ++ l2) = skipn (Z.to_nat k) l1 ++ l2.
Proof.
  unfold zlen. intros Hk. rewrite skipn_app.
  replace (Z.to_nat k - length l1)%nat with 0%nat by lia. rewrite skipn_O. reflexivity.
Qed.

Lemma zskipn_app_ge {A} (k : Z) (l1 l2 : list A) : zlen l1 <= k ->
  skipn (Z.to_nat k) (l1 ++ l2) = skipn (Z.to_nat (k - zlen l1)) l2.
Proof.
  unfold zlen. intros Hk. rewrite skipn_app.
  rewrite (skipn_all2 l1) by lia. cbn [app]. f_equal. lia.
Qed.

Lemma zskipn_all {A} (k : Z) (l : list A) : zlen l <= k -> skipn (Z.to_nat k) l = [].
Proof. unfold zlen. intros Hk. apply skipn_all2. lia. Qed.

Lemma zfirstn_all {A} (k : Z) (l : list A) : zlen l <= k -> firstn (Z.to_nat k) l = l.
Proof. unfold zlen. intros Hk. apply firstn_all2. lia. Qed.

Lemma zskipn_firstn {A} (m n : Z) (l : list A) : 0 <= m <= n ->
  skipn (Z.to_nat m) (firstn (Z.to_nat n) l) = firstn (Z.to_nat (n - m)) (skipn (Z.to_nat m) l).
Proof. intros H. rewrite skipn_firstn_comm. f_equal. lia. Qed.

Lemma skipn_nth_cons {A} (d : A) : forall (k : nat) (l : list A), (k < length l)%nat ->
  skipn k l = nth k l d :: skipn (Datatypes.S k) l.
Proof.
  induction k as [|k IH]; intros l H; destruct l as [|x l]; cbn [length] in H; try lia.
  - reflexivity.
  - rewrite !skipn_cons. cbn [nth]. apply IH. lia.
Qed.

(* ------------------------------------------------------------------ *)
(* 2. zr / zrange                                                      *)
(* ------------------------------------------------------------------ *)

Lemma zr_length {A} (g : Z -> A) : forall (n : nat) (a : Z), length (zr g a n) = n.
Proof. induction n as [|n IH]; intros a; cbn [zr length]; [reflexivity|]. rewrite IH. reflexivity. Qed.

Lemma zlen_zrange {A} (g : Z -> A) (a n : Z) : 0 <= n -> zlen (zrange g a n) = n.
Proof. intros Hn. unfold zlen, zrange. rewrite zr_length. lia. Qed.

Lemma zr_app {A} (g : Z -> A) : forall (n1 n2 : nat) (a : Z),
  zr g a (n1 + n2) = zr g a n1 ++ zr g (a + Z.of_nat n1) n2.
Proof.
  induction n1 as [|n1 IH]; intros n2 a.
  - cbn [Nat.add zr app]. f_equal. lia.
  - cbn [Nat.add zr app]. f_equal. rewrite IH. f_equal. f_equal. lia.
Qed.

Lemma zrange_app {A} (g : Z -> A) (a n1 n2 : Z) : 0 <= n1 -> 0 <= n2 ->
  zrange g a (n1 + n2) = zrange g a n1 ++ zrange g (a + n1) n2.
Proof.
  intros H1 H2. unfold zrange. rewrite Z2Nat.inj_add by lia. rewrite zr_app.
  f_equal. f_equal. lia.
Qed.

Lemma zr_ext {A} (g h : Z -> A) : forall (n : nat) (a : Z),
  (forall i, a <= i < a + Z.of_nat n -> g i = h i) -> zr g a n = zr h a n.
Proof.
  induction n as [|n IH]; intros a H; cbn [zr]; [reflexivity|]. f_equal.
  - apply H. lia.
  - apply IH. intros i Hi. apply H. lia.
Qed.

Lemma zr_const {A} (f : A) : forall (n : nat) (a : Z), zr (fun _ => f) a n = repeat f n.
Proof. induction n as [|n IH]; intros a; cbn [zr repeat]; [reflexivity|]. rewrite IH. reflexivity. Qed.

Lemma zr_nth (l : list Z) : forall (n : nat) (a : Z), 0 <= a -> a + Z.of_nat n <= zlen l ->
  zr (fun i => nth (Z.to_nat i) l 0) a n = firstn n (skipn (Z.to_nat a) l).
Proof.
  unfold zlen. induction n as [|n IH]; intros a Ha Hn; cbn [zr]; [reflexivity|].
  rewrite (skipn_nth_cons 0 (Z.to_nat a) l) by lia. rewrite firstn_cons. f_equal.
  rewrite IH by lia. f_equal. f_equal. lia.
Qed.

Lemma skipn_zr {A} (g : Z -> A) : forall (k n : nat) (a : Z),
  skipn k (zr g a n) = zr g (a + Z.of_nat k) (n - k).
Proof.
  induction k as [|k IH]; intros n a.
  - rewrite skipn_O. rewrite Nat.sub_0_r. f_equal. lia.
  - destruct n as [|n].
    + cbn [zr Nat.sub]. rewrite skipn_nil. reflexivity.
    + cbn [zr]. rewrite skipn_cons. rewrite IH. cbn [Nat.sub]. f_equal. lia.
Qed.

Lemma zskipn_zrange {A} (g : Z -> A) (a n k : Z) : 0 <= k ->
  skipn (Z.to_nat k) (zrange g a n) = zrange g (a + k) (n - k).
Proof.
  intros Hk. unfold zrange. rewrite skipn_zr. f_equal; lia.
Qed.

(* ------------------------------------------------------------------ *)
(* 3. Python slices actually used by the model                         *)
(* ------------------------------------------------------------------ *)

Lemma py_slice_mid {A} (l : list A) (i j : Z) : 0 <= i -> i <= j -> j <= zlen l ->
  py_slice (Some i) (Some j) l = firstn (Z.to_nat (j - i)) (skipn (Z.to_nat i) l).
Proof.
  intros Hi Hij Hj. unfold py_slice, py_lo, py_hi, adj_bound. cbv zeta.
  destruct (i <? 0) eqn:E1; [lia|]. destruct (j <? 0) eqn:E2; [lia|].
  rewrite !Z.min_l by lia. reflexivity.
Qed.

Lemma py_slice_from {A} (l : list A) (n : Z) : 0 <= n <= zlen l ->
  py_slice (Some n) None l = skipn (Z.to_nat n) l.
Proof.
  intros Hn. unfold py_slice, py_lo, py_hi, adj_bound. cbv zeta.
  destruct (n <? 0) eqn:E1; [lia|]. rewrite Z.min_l by lia.
  apply zfirstn_all. rewrite zlen_skipn by lia. lia.
Qed.

Lemma py_slice_upto {A} (l : list A) (i : Z) : 0 <= i <= zlen l ->
  py_slice None (Some i) l = firstn (Z.to_nat i) l.
Proof.
  intros Hi. unfold py_slice, py_lo, py_hi, adj_bound. cbv zeta.
  destruct (i <? 0) eqn:E1; [lia|]. rewrite Z.min_l by lia.
  rewrite Z.sub_0_r. reflexivity.
Qed.

Lemma py_slice_last {A} (l : list A) (c : Z) : 1 <= c <= zlen l ->
  py_slice (Some (- c)) None l = skipn (Z.to_nat (zlen l - c)) l.
Proof.
  intros Hc. unfold py_slice, py_lo, py_hi, adj_bound. cbv zeta.
  destruct (- c <? 0) eqn:E1; [|lia]. rewrite Z.max_r by lia.
  replace (- c + zlen l) with (zlen l - c) by lia.
  apply zfirstn_all. rewrite zlen_skipn by lia. lia.
Qed.
