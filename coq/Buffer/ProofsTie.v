(* C14 translator tie: the definitions `g_*` of gen/BufferStepGen.v - regenerated from psiaudio/buffer.py by
   translate/pybuffer2coq.py on every run - equal the hand-written model of Buffer/Model.v, for ALL states that satisfy
   the buffer invariant `binv` (reads, bounds and index translations: for all states whatsoever).  With that, the
   theorems about the model are theorems about what the source says now; the refinement is restated over `g_run`.

   One place where model and source differ (found by this tie; unobservable through the API, so the differential
   harness cannot see it): since psiaudio 9b9af17 `_invalidate` writes `self._fill_value` into the freed slots, the
   model writes `nanv`.  The freed slots lie below `_ilb` and no read reaches them, hence the tie for invalidation is
   equality up to the slots below `ilb` (`bsim`), and exact equality when the fill value is the model's NaN.
   Stdlib only, no axioms. *)
From Coq Require Import ZArith List Bool Lia ZifyBool.
From PV Require Import Buffer.Model Buffer.Spec Buffer.Proofs Buffer.SpecX Buffer.ProofsX Buffer.ProofsXE.
From PV Require Import Buffer.TieLib gen.BufferStepGen.
Import ListNotations.
Open Scope Z_scope.

(* ------------------------------------------------------------------ *)
(* 0. the invariant, and equality up to the unobservable slots         *)
(* ------------------------------------------------------------------ *)

(* len(_buffer) = _buffer_samples, 0 <= _ilb <= _buffer_samples, at least one slot *)
Definition binv (b : bstate) : Prop := zlen (buf b) = cap b /\ 0 <= ilb b <= cap b /\ 1 <= cap b.

Example binv_ex : binv (binit 3 (-1)) /\ binv {| cap := 3; S := 7; ilb := 1; buf := [0; 6; 7]; fillv := 0 |}.
Proof. split; vm_compute; intuition congruence. Qed.

(* same bookkeeping, same length, same contents from the valid-start index on *)
Definition bsim (g m : bstate) : Prop :=
  cap g = cap m /\ S g = S m /\ ilb g = ilb m /\ fillv g = fillv m /\ zlen (buf g) = zlen (buf m) /\
  skipn (Z.to_nat (ilb m)) (buf g) = skipn (Z.to_nat (ilb m)) (buf m).

Lemma bsim_refl (b : bstate) : bsim b b.
Proof. unfold bsim. intuition reflexivity. Qed.

Lemma Rel_binv (b : bstate) (s : spec) : Rel b s -> binv b.
Proof. intros R. destruct R. unfold binv. lia. Qed.

(* the simulation relation of Buffer/Proofs.v does not look below ilb either *)
Lemma Rel_bsim (g m : bstate) (s : spec) : Rel m s -> bsim g m -> Rel g s.
Proof.
  intros R (Ec & ES & Ei & Ef & El & Et).
  destruct R as [Rcap Rcap1 RS Rilb Rlen Rlo Rlo0 Rfill Rtail].
  constructor; rewrite ?Ec, ?ES, ?Ei, ?Ef, ?El, ?Et; assumption.
Qed.

(* ------------------------------------------------------------------ *)
(* 1. lists and the NumPy helpers of TieLib                            *)
(* ------------------------------------------------------------------ *)

Lemma zfirstn_app_exact {A} (k : Z) (l1 l2 : list A) : zlen l1 = k -> firstn (Z.to_nat k) (l1 ++ l2) = l1.
Proof.
  unfold zlen. intros H. replace (Z.to_nat k) with (length l1) by lia.
  rewrite firstn_app, Nat.sub_diag, firstn_all. cbn [firstn]. apply app_nil_r.
Qed.

Lemma zskipn_app_exact {A} (k : Z) (l1 l2 : list A) : zlen l1 = k -> skipn (Z.to_nat k) (l1 ++ l2) = l2.
Proof.
  unfold zlen. intros H. replace (Z.to_nat k) with (length l1) by lia.
  rewrite skipn_app, Nat.sub_diag, skipn_all. reflexivity.
Qed.

Lemma zlen_firstn_min {A} (k : Z) (l : list A) : 0 <= k -> zlen (firstn (Z.to_nat k) l) = Z.min k (zlen l).
Proof. unfold zlen. intros H. rewrite firstn_length. lia. Qed.

Lemma py_slice_upto_any {A} (l : list A) (i : Z) : 0 <= i -> py_slice None (Some i) l = firstn (Z.to_nat i) l.
Proof.
  intros Hi. unfold py_slice, py_lo, py_hi, adj_bound. cbv zeta.
  destruct (i <? 0) eqn:E1; [lia|]. rewrite Z.sub_0_r.
  destruct (Z.min_spec i (zlen l)) as [[H1 H2]|[H1 H2]]; rewrite H2; cbn [Z.to_nat skipn]; [reflexivity|].
  rewrite zfirstn_all by lia. symmetry. apply zfirstn_all. lia.
Qed.

Lemma zlen_py_slice_last {A} (l : list A) (c : Z) : 1 <= c <= zlen l -> zlen (py_slice (Some (- c)) None l) = c.
Proof. intros H. rewrite py_slice_last by lia. rewrite zlen_skipn by lia. lia. Qed.

(* x[:] = src *)
Lemma np_set_slice_all {A} (src l : list A) : zlen src = zlen l -> np_set_slice None None src l = Ret src.
Proof.
  intros H. pose proof (zlen_nonneg l) as Hn. unfold np_set_slice, py_lo, py_hi. cbv zeta.
  rewrite Z.sub_0_r. destruct (zlen src =? Z.max 0 (zlen l)) eqn:E; [|lia].
  cbn [Z.to_nat firstn app]. rewrite zskipn_all by lia. rewrite app_nil_r. reflexivity.
Qed.

(* x[:-k] = src, k >= 1 *)
Lemma np_set_slice_head {A} (src l : list A) (k : Z) : 1 <= k -> zlen src = Z.max 0 (zlen l - k) ->
  np_set_slice None (Some (- k)) src l = Ret (src ++ skipn (Z.to_nat (zlen l - k)) l).
Proof.
  intros Hk H. unfold np_set_slice, py_lo, py_hi, adj_bound. cbv zeta.
  destruct (- k <? 0) eqn:E1; [|lia]. rewrite Z.sub_0_r.
  replace (- k + zlen l) with (zlen l - k) by lia.
  destruct (zlen src =? Z.max 0 (Z.max 0 (zlen l - k))) eqn:E; [|lia].
  cbn [Z.to_nat firstn app]. do 3 f_equal. lia.
Qed.

(* x[-k:] = src, k >= 1 *)
Lemma np_set_slice_tail {A} (src l : list A) (k : Z) : 1 <= k -> zlen src = Z.min k (zlen l) ->
  np_set_slice (Some (- k)) None src l = Ret (firstn (Z.to_nat (zlen l - k)) l ++ src).
Proof.
  intros Hk H. pose proof (zlen_nonneg l) as Hn. unfold np_set_slice, py_lo, py_hi, adj_bound. cbv zeta.
  destruct (- k <? 0) eqn:E1; [|lia].
  replace (- k + zlen l) with (zlen l - k) by lia.
  destruct (zlen src =? Z.max 0 (zlen l - Z.max 0 (zlen l - k))) eqn:E; [|lia].
  rewrite (zskipn_all (Z.max (Z.max 0 (zlen l - k)) (zlen l))) by lia. rewrite app_nil_r.
  do 3 f_equal. lia.
Qed.

(* x[:] = v *)
Lemma py_set_const_all {A} (v : A) (l : list A) : py_set_const None None v l = repeat v (Z.to_nat (zlen l)).
Proof.
  unfold py_set_const, py_lo, py_hi. cbv zeta. destruct (zlen l <=? 0) eqn:E.
  - destruct l as [|x l]; [reflexivity|]. unfold zlen in E. cbn [length] in E. lia.
  - rewrite Z.sub_0_r. cbn [Z.to_nat firstn app]. rewrite zskipn_all by lia. apply app_nil_r.
Qed.

(* x[:-k] = v, k >= 1 *)
Lemma py_set_const_head {A} (v : A) (l : list A) (k : Z) : 1 <= k ->
  py_set_const None (Some (- k)) v l =
  if zlen l - k <=? 0 then l else repeat v (Z.to_nat (zlen l - k)) ++ skipn (Z.to_nat (zlen l - k)) l.
Proof.
  intros Hk. unfold py_set_const, py_lo, py_hi, adj_bound. cbv zeta.
  destruct (- k <? 0) eqn:E1; [|lia]. replace (- k + zlen l) with (zlen l - k) by lia.
  destruct (zlen l - k <=? 0) eqn:E2.
  - destruct (Z.max 0 (zlen l - k) <=? 0) eqn:E3; [reflexivity|lia].
  - destruct (Z.max 0 (zlen l - k) <=? 0) eqn:E3; [lia|].
    rewrite Z.sub_0_r, Z.max_r by lia. reflexivity.
Qed.

(* ------------------------------------------------------------------ *)
(* 2. bounds, index translation, reads: equal for EVERY state          *)
(* ------------------------------------------------------------------ *)

Lemma tie_samples_to_index (b : bstate) (i : Z) : g_samples_to_index b i = samples_to_index b i.
Proof. reflexivity. Qed.
Lemma tie_time_to_index (b : bstate) (i : Z) : g_time_to_index b i = samples_to_index b i.
Proof. reflexivity. Qed.
Lemma tie_samples_lb (b : bstate) : g_get_samples_lb b = samples_lb b.
Proof. reflexivity. Qed.
Lemma tie_samples_ub (b : bstate) : g_get_samples_ub b = samples_ub b.
Proof. reflexivity. Qed.

Lemma tie_get_range_samples (b : bstate) (lb ub : option Z) :
  out_of_res (g_get_range_samples b lb ub) = get_range_samples b lb ub.
Proof.
  unfold g_get_range_samples, get_range_samples, g_samples_to_index, g_get_samples_lb, g_get_samples_ub,
    samples_to_index, samples_lb, samples_ub.
  destruct lb as [lb|]; destruct ub as [ub|]; cbv beta iota zeta;
    repeat match goal with |- context [if ?c then _ else _] => destruct c end; reflexivity.
Qed.

Lemma tie_get_range_filled (b : bstate) (a e f : Z) :
  out_of_res (g_get_range_filled b a e f) = get_range_filled b a e f.
Proof.
  unfold g_get_range_filled, get_range_filled, get_range_filled_gen. cbv beta iota zeta.
  rewrite tie_samples_lb, tie_samples_ub. rewrite <- tie_get_range_samples.
  destruct (g_get_range_samples b _ _) as [d|x]; cbn [rbind out_of_res].
  - unfold np_pad. destruct ((_ <? 0) || (_ <? 0)); reflexivity.
  - destruct x; reflexivity.
Qed.

Lemma tie_get_latest (b : bstate) (a e : Z) (f : option Z) :
  out_of_res (g_get_latest b a e f) = get_latest b a e f.
Proof.
  unfold g_get_latest, get_latest. cbv zeta. rewrite tie_samples_ub. unfold samples_ub.
  destruct f as [f|]; [apply tie_get_range_filled|apply tie_get_range_samples].
Qed.

(* ------------------------------------------------------------------ *)
(* 3. __init__ and append_data                                         *)
(* ------------------------------------------------------------------ *)

Lemma tie_init (c fill : Z) : 0 <= c -> g_init c fill = MOk (binit c fill).
Proof.
  intros Hc. unfold g_init, np_full. cbv zeta. cbn [cap set_cap new_object].
  destruct (c <? 0) eqn:E; [lia|]. reflexivity.
Qed.

Example tie_init_ex : 0 <= 3. Proof. lia. Qed.

(* a negative number of slots: np.full refuses, the model's `repeat` does not *)
Lemma tie_init_refuted : exists c fill, g_init c fill <> MOk (binit c fill).
Proof. exists (-1), 0. vm_compute. discriminate. Qed.

Lemma tie_append (b : bstate) (d : list Z) : binv b -> g_append_data b d = MOk (append b d).
Proof.
  intros (Hlen & Hilb & Hcap). pose proof (zlen_nonneg d) as Hd.
  unfold g_append_data. cbv zeta.
  destruct (zlen d =? 0) eqn:E0.
  { assert (Hnil : d = []) by (destruct d; [reflexivity|unfold zlen in E0; cbn [length] in E0; lia]).
    subst d. rewrite append_empty by lia. reflexivity. }
  unfold append. cbv zeta.
  destruct (zlen d >? cap b) eqn:E1.
  - rewrite np_set_slice_all by (rewrite zlen_py_slice_last; lia). reflexivity.
  - rewrite py_slice_from by lia.
    rewrite np_set_slice_head by (rewrite ?zlen_skipn; lia).
    cbn [mtry buf set_buf].
    rewrite np_set_slice_tail.
    2: lia.
    2: { rewrite zlen_app, !zlen_skipn by lia. lia. }
    cbn [mtry]. unfold set_S, set_ilb, set_buf. cbn [cap S ilb buf fillv].
    rewrite zlen_app, !zlen_skipn by lia.
    rewrite zfirstn_app_exact by (rewrite zlen_skipn; lia). reflexivity.
Qed.

Example tie_append_ex : binv (binit 3 (-1)). Proof. apply binv_ex. Qed.

(* without the invariant: a buffer of zero slots broadcasts the chunk into nothing, the model stores it *)
Lemma tie_append_refuted : exists b d, g_append_data b d <> MOk (append b d).
Proof.
  exists {| cap := 0; S := 0; ilb := 0; buf := []; fillv := 0 |}, [1]. vm_compute. discriminate.
Qed.

(* ------------------------------------------------------------------ *)
(* 4. _invalidate / invalidate_samples                                 *)
(* ------------------------------------------------------------------ *)

(* the model's invalidate_idx with the freed slots filled as the source fills them since 9b9af17 *)
Definition invalidate_idx_fill (b : bstate) (i : Z) : bstate :=
  if i <=? ilb b then
    {| cap := cap b; S := S b; ilb := cap b;
       buf := repeat (fillv b) (Z.to_nat (cap b)); fillv := fillv b |}
  else
    {| cap := cap b; S := S b; ilb := ilb b + cap b - i;
       buf := repeat (fillv b) (Z.to_nat (cap b - i)) ++ py_slice None (Some i) (buf b);
       fillv := fillv b |}.

Definition invalidate_samples_fill (b : bstate) (i : Z) : bstate :=
  if i >=? S b then b
  else
    let bi := samples_to_index b i in
    let b' := invalidate_idx_fill b bi in
    let di := S b' - i in
    {| cap := cap b'; S := S b' - di; ilb := ilb b'; buf := buf b'; fillv := fillv b' |}.

Lemma tie__invalidate (b : bstate) (i : Z) : binv b -> g__invalidate b i = MOk (invalidate_idx_fill b i).
Proof.
  intros (Hlen & Hilb & Hcap). unfold g__invalidate, invalidate_idx_fill.
  destruct (i <=? ilb b) eqn:E1.
  - cbv zeta. unfold set_ilb, set_buf. cbn [cap S ilb buf fillv].
    rewrite py_set_const_all, Hlen. reflexivity.
  - rewrite !py_slice_upto_any by lia.
    rewrite np_set_slice_tail by (rewrite ?zlen_firstn_min; lia).
    cbn [mtry]. cbv zeta. unfold set_ilb, set_buf. cbn [cap S ilb buf fillv].
    rewrite py_set_const_head by lia. rewrite Hlen.
    destruct (Z_le_gt_dec (cap b - i) 0) as [Hle|Hgt].
    + replace (Z.to_nat (cap b - i)) with 0%nat by lia. cbn [firstn app repeat].
      rewrite zlen_firstn_min, Hlen by lia.
      destruct (Z.min i (cap b) - i <=? 0) eqn:E2; [reflexivity|lia].
    + rewrite zlen_app, !zlen_firstn_min, Hlen by lia.
      replace (Z.min (cap b - i) (cap b) + Z.min i (cap b) - i) with (cap b - i) by lia.
      destruct (cap b - i <=? 0) eqn:E2; [lia|].
      rewrite zskipn_app_exact by (rewrite zlen_firstn_min; lia). reflexivity.
Qed.

Lemma invalidate_idx_fill_nan (b : bstate) (i : Z) : fillv b = nanv ->
  invalidate_idx_fill b i = invalidate_idx true b i.
Proof. intros H. unfold invalidate_idx_fill, invalidate_idx. rewrite H. reflexivity. Qed.

Lemma bsim_invalidate_idx (b : bstate) (i : Z) : binv b ->
  bsim (invalidate_idx_fill b i) (invalidate_idx true b i).
Proof.
  intros (Hlen & Hilb & Hcap). unfold invalidate_idx_fill, invalidate_idx.
  destruct (i <=? ilb b) eqn:E1; [apply bsim_refl|].
  unfold bsim. cbn [cap S ilb buf fillv]. repeat (split; [reflexivity|]).
  destruct (cap b - i <=? 0) eqn:E2.
  - replace (Z.to_nat (cap b - i)) with 0%nat by lia. split; reflexivity.
  - split.
    + rewrite !zlen_app, !zlen_repeat by lia. reflexivity.
    + rewrite !zskipn_app_ge by (rewrite zlen_repeat; lia). rewrite !zlen_repeat by lia. reflexivity.
Qed.

(* the source writes the fill value where the model writes NaN: not equal in general ... *)
Lemma tie__invalidate_model_refuted : exists b i, binv b /\ g__invalidate b i <> MOk (invalidate_idx true b i).
Proof.
  exists {| cap := 3; S := 3; ilb := 0; buf := [1; 2; 3]; fillv := -1 |}, 2.
  split; [vm_compute; intuition congruence|]. vm_compute. discriminate.
Qed.

Lemma tie_invalidate_samples (b : bstate) (i : Z) : binv b ->
  g_invalidate_samples b i = MOk (invalidate_samples_fill b i).
Proof.
  intros Hb. unfold g_invalidate_samples, invalidate_samples_fill. cbv zeta.
  destruct (i >=? S b); [reflexivity|].
  rewrite tie_samples_to_index, tie__invalidate by exact Hb. reflexivity.
Qed.

Lemma tie_invalidate (b : bstate) (i : Z) : binv b -> g_invalidate b i = MOk (invalidate_samples_fill b i).
Proof. intros Hb. unfold g_invalidate. rewrite tie_invalidate_samples by exact Hb. reflexivity. Qed.

(* ... but equal wherever a read can look, and equal outright when the fill value is the model's NaN *)
Lemma bsim_invalidate_samples (b : bstate) (i : Z) : binv b ->
  bsim (invalidate_samples_fill b i) (invalidate_samples b i).
Proof.
  intros Hb. unfold invalidate_samples_fill, invalidate_samples, invalidate_samples_gen. cbv zeta.
  destruct (i >=? S b); [apply bsim_refl|].
  destruct (bsim_invalidate_idx b (samples_to_index b i) Hb) as (Ec & ES & Ei & Ef & El & Et).
  unfold bsim. cbn [cap S ilb buf fillv]. rewrite Ec, ES, Ei, Ef, El, Et. intuition reflexivity.
Qed.

Lemma invalidate_samples_fill_nan (b : bstate) (i : Z) : fillv b = nanv ->
  invalidate_samples_fill b i = invalidate_samples b i.
Proof.
  intros H. unfold invalidate_samples_fill, invalidate_samples, invalidate_samples_gen.
  rewrite invalidate_idx_fill_nan by exact H. reflexivity.
Qed.

(* ------------------------------------------------------------------ *)
(* 5. resize                                                           *)
(* ------------------------------------------------------------------ *)

(* a filled read of a non-crossed range never raises once 0 <= ilb <= cap *)
Lemma filled_total (b : bstate) (a e f : Z) : 0 <= ilb b <= cap b -> a <= e ->
  exists d, get_range_filled b a e f = OData d.
Proof.
  intros Hilb Hae. unfold get_range_filled, get_range_filled_gen, get_range_samples, samples_to_index,
    samples_lb, samples_ub. cbv beta iota zeta.
  match goal with |- context [if ?c then OIndexError else _] => destruct c eqn:E1 end; [lia|].
  match goal with |- context [if ?c then OIndexError else _] => destruct c eqn:E2 end; [lia|].
  match goal with |- context [if ?c then OValueError else _] => destruct c eqn:E3 end; [lia|].
  eexists. reflexivity.
Qed.

Lemma tie_resize (b : bstate) (m : Z) : binv b -> 0 <= m -> g_resize b m = MOk (resize b m).
Proof.
  intros (Hlen & Hilb & Hcap) Hm. unfold g_resize, resize. cbv zeta.
  pose proof (tie_get_latest b (- m) 0 (Some (fillv b))) as T.
  destruct (filled_total b (- m + S b) (0 + S b) (fillv b) Hilb ltac:(lia)) as [d Hd].
  unfold get_latest in T |- *. rewrite Hd in T |- *.
  destruct (g_get_latest b (- m) 0 (Some (fillv b))) as [d'|x]; cbn [out_of_res] in T.
  - injection T as T. subst d'. reflexivity.
  - destruct x; discriminate T.
Qed.

Example tie_resize_ex : binv (binit 3 (-1)) /\ 0 <= 5. Proof. split; [apply binv_ex|lia]. Qed.

(* a negative size: np.pad refuses the negative pad width; the model's resize leaves the buffer alone and
   reports nothing (Spec.wf_op only admits resizes to >= 1 sample) *)
Lemma tie_resize_refuted : exists b m, binv b /\ g_resize b m <> MOk (resize b m).
Proof. exists (binit 3 (-1)), (-1). split; [apply binv_ex|]. vm_compute. discriminate. Qed.

(* ------------------------------------------------------------------ *)
(* 6. one step and whole histories of the generated definitions        *)
(* ------------------------------------------------------------------ *)

(* harness/C14.py calls exactly these methods for the operations of a history *)
Definition g_step (b : bstate) (o : op) : bstate * out :=
  match o with
  | Append d => step_of_mres (g_append_data b d)
  | Invalidate i => step_of_mres (g_invalidate_samples b i)
  | Resize m => step_of_mres (g_resize b m)
  | ReadS lb ub => (b, out_of_res (g_get_range_samples b lb ub))
  | ReadFilled lb ub f => (b, out_of_res (g_get_range_filled b lb ub f))
  | Latest lb ub f => (b, out_of_res (g_get_latest b lb ub f))
  | Bounds => (b, OBounds (g_get_samples_lb b) (g_get_samples_ub b))
  end.

Fixpoint g_run (b : bstate) (ops : list op) : bstate * list out :=
  match ops with
  | [] => (b, [])
  | o :: t => let '(b1, r) := g_step b o in let '(b2, rs) := g_run b1 t in (b2, r :: rs)
  end.

(* resizes to a non-negative number of samples (Spec.wf_op asks for >= 1) *)
Definition resize_ok (o : op) : Prop := match o with Resize m => 0 <= m | _ => True end.
Definition is_invalidate (o : op) : bool := match o with Invalidate _ => true | _ => false end.

(* generated step = model step: outputs equal, states equal up to the slots below ilb ... *)
Lemma tie_step (b : bstate) (o : op) : binv b -> resize_ok o ->
  snd (g_step b o) = snd (step b o) /\ bsim (fst (g_step b o)) (fst (step b o)).
Proof.
  intros Hb Ho. destruct o as [d|i|m|lb ub|a e f|a e f|]; cbn [g_step step resize_ok] in *.
  - rewrite tie_append by exact Hb. cbn [step_of_mres fst snd]. split; [reflexivity|apply bsim_refl].
  - rewrite tie_invalidate_samples by exact Hb. cbn [step_of_mres fst snd].
    split; [reflexivity|apply bsim_invalidate_samples; exact Hb].
  - rewrite tie_resize by assumption. cbn [step_of_mres fst snd]. split; [reflexivity|apply bsim_refl].
  - rewrite tie_get_range_samples. cbn [fst snd]. split; [reflexivity|apply bsim_refl].
  - rewrite tie_get_range_filled. cbn [fst snd]. split; [reflexivity|apply bsim_refl].
  - rewrite tie_get_latest. cbn [fst snd]. split; [reflexivity|apply bsim_refl].
  - cbn [fst snd]. split; [reflexivity|apply bsim_refl].
Qed.

(* ... and equal outright for every operation but an invalidation, and for that too when the buffer's fill value is
   the model's NaN (the default fill_value=np.nan) *)
Lemma tie_step_exact (b : bstate) (o : op) : binv b -> resize_ok o ->
  is_invalidate o = false \/ fillv b = nanv -> g_step b o = step b o.
Proof.
  intros Hb Ho Hf. destruct o as [d|i|m|lb ub|a e f|a e f|]; cbn [g_step step resize_ok is_invalidate] in *.
  - rewrite tie_append by exact Hb. reflexivity.
  - destruct Hf as [Hf|Hf]; [discriminate Hf|].
    rewrite tie_invalidate_samples, invalidate_samples_fill_nan by assumption. reflexivity.
  - rewrite tie_resize by assumption. reflexivity.
  - rewrite tie_get_range_samples. reflexivity.
  - rewrite tie_get_range_filled. reflexivity.
  - rewrite tie_get_latest. reflexivity.
  - reflexivity.
Qed.

Example tie_step_ex : binv (binit 3 nanv) /\ resize_ok (Resize 4) /\ fillv (binit 3 nanv) = nanv.
Proof. split; [vm_compute; intuition congruence|]. split; [cbn; lia|reflexivity]. Qed.

Lemma tie_step_exact_refuted : exists b o, binv b /\ resize_ok o /\ wf_op o = true /\ g_step b o <> step b o.
Proof.
  exists {| cap := 3; S := 3; ilb := 0; buf := [1; 2; 3]; fillv := -1 |}, (Invalidate 2).
  split; [vm_compute; intuition congruence|]. split; [exact I|]. split; [reflexivity|].
  vm_compute. discriminate.
Qed.

(* the generated step refines the abstract specification, for every operation the widest history class admits *)
Lemma wf_at_e_resize_ok (s : spec) (o : op) : wf_at_e s o = true -> resize_ok o.
Proof.
  destruct o as [d|i|m|lb ub|a e f|a e f|]; try exact (fun _ => I).
  unfold wf_at_e, wf_at_x, wf_at. cbn [is_empty_append wf_op resize_ok]. lia.
Qed.

Lemma g_step_sim (b : bstate) (s : spec) (o : op) : Rel b s -> wf_at_e s o = true ->
  Rel (fst (g_step b o)) (spec_step s o) /\ snd (g_step b o) = spec_out s o.
Proof.
  intros R W. destruct (step_sim_e b s o R W) as [R1 O1].
  destruct (tie_step b o (Rel_binv b s R) (wf_at_e_resize_ok s o W)) as [O2 B2].
  split; [exact (Rel_bsim _ _ _ R1 B2)|congruence].
Qed.

Lemma g_run_sim : forall (ops : list op) (b : bstate) (s : spec), Rel b s -> wf_hist_e s ops = true ->
  Rel (fst (g_run b ops)) (fst (spec_run s ops)) /\ snd (g_run b ops) = snd (spec_run s ops).
Proof.
  induction ops as [|o t IH]; intros b s R W.
  - cbn [g_run spec_run fst snd]. split; [exact R|reflexivity].
  - cbn [wf_hist_e] in W. apply andb_true_iff in W. destruct W as [W1 W2].
    destruct (g_step_sim b s o R W1) as [R1 O1].
    specialize (IH (fst (g_step b o)) (spec_step s o) R1 W2). destruct IH as [R2 O2].
    cbn [g_run spec_run].
    destruct (g_step b o) as [b1 r] eqn:Es. cbn [fst snd] in *.
    destruct (g_run b1 t) as [b2 rs] eqn:Er.
    destruct (spec_run (spec_step s o) t) as [s2 rs'] eqn:Esr.
    cbn [fst snd] in *. split; [exact R2|]. rewrite O1, O2. reflexivity.
Qed.

Lemma wf_hist_wf_hist_e (s : spec) (ops : list op) : wf_hist s ops = true -> wf_hist_e s ops = true.
Proof. intros W. apply wf_hist_x_wf_hist_e, wf_hist_wf_hist_x, W. Qed.

(* ------------------------------------------------------------------ *)
(* 7. the statements Props/C14.v closes with                           *)
(* ------------------------------------------------------------------ *)

(* reads, bounds and index translations of the source: the model's, in every state *)
Lemma source_reads : forall b : bstate,
  (forall i, g_samples_to_index b i = samples_to_index b i) /\
  (forall t, g_time_to_index b t = samples_to_index b t) /\
  g_get_samples_lb b = samples_lb b /\ g_get_samples_ub b = samples_ub b /\
  (forall lb ub, out_of_res (g_get_range_samples b lb ub) = get_range_samples b lb ub) /\
  (forall a e f, out_of_res (g_get_range_filled b a e f) = get_range_filled b a e f) /\
  (forall a e f, out_of_res (g_get_latest b a e f) = get_latest b a e f).
Proof.
  intros b. repeat split; intros;
    auto using tie_get_range_samples, tie_get_range_filled, tie_get_latest.
Qed.

(* constructor and mutators of the source: the model's, in every state satisfying the invariant *)
Lemma source_mutators :
  (forall c fill, 0 <= c -> g_init c fill = MOk (binit c fill)) /\
  (forall b, binv b ->
     (forall d, g_append_data b d = MOk (append b d)) /\
     (forall m, 0 <= m -> g_resize b m = MOk (resize b m)) /\
     (forall i, exists b', g_invalidate_samples b i = MOk b' /\ g_invalidate b i = MOk b' /\
                           bsim b' (invalidate_samples b i) /\
                           (fillv b = nanv -> b' = invalidate_samples b i))).
Proof.
  split; [exact tie_init|]. intros b Hb. split; [|split].
  - intros d. apply tie_append, Hb.
  - intros m Hm. apply tie_resize; assumption.
  - intros i. exists (invalidate_samples_fill b i).
    split; [apply tie_invalidate_samples, Hb|]. split; [apply tie_invalidate, Hb|].
    split; [apply bsim_invalidate_samples, Hb|apply invalidate_samples_fill_nan].
Qed.

Lemma source_mutators_need_invariant :
  (exists c fill, g_init c fill <> MOk (binit c fill)) /\
  (exists b d, g_append_data b d <> MOk (append b d)) /\
  (exists b m, binv b /\ g_resize b m <> MOk (resize b m)) /\
  (exists b i, binv b /\ g__invalidate b i <> MOk (invalidate_idx true b i)).
Proof.
  split; [exact tie_init_refuted|]. split; [exact tie_append_refuted|].
  split; [exact tie_resize_refuted|exact tie__invalidate_model_refuted].
Qed.

Lemma source_step : forall b o, binv b -> resize_ok o ->
  snd (g_step b o) = snd (step b o) /\ bsim (fst (g_step b o)) (fst (step b o)) /\
  (is_invalidate o = false \/ fillv b = nanv -> g_step b o = step b o).
Proof.
  intros b o Hb Ho. destruct (tie_step b o Hb Ho) as [H1 H2].
  split; [exact H1|]. split; [exact H2|]. apply tie_step_exact; assumption.
Qed.

(* C14_refines_spec over the definitions regenerated from the source: the constructor of the source succeeds and
   every observable output of every history is the abstract specification's *)
Lemma source_refines_spec_e : forall c fill ops, 1 <= c -> wf_hist_e (sinit c fill) ops = true ->
  exists b0, g_init c fill = MOk b0 /\
    snd (g_run b0 ops) = snd (spec_run (sinit c fill) ops) /\
    Rel (fst (g_run b0 ops)) (fst (spec_run (sinit c fill) ops)).
Proof.
  intros c fill ops Hc W. exists (binit c fill). split; [apply tie_init; lia|].
  destruct (g_run_sim ops (binit c fill) (sinit c fill) (Rel_init c fill Hc) W) as [R O].
  split; assumption.
Qed.

Lemma source_refines_spec : forall c fill ops, 1 <= c -> wf_hist (sinit c fill) ops = true ->
  exists b0, g_init c fill = MOk b0 /\ snd (g_run b0 ops) = snd (spec_run (sinit c fill) ops).
Proof.
  intros c fill ops Hc W.
  destruct (source_refines_spec_e c fill ops Hc (wf_hist_wf_hist_e _ _ W)) as (b0 & H0 & H1 & _).
  exists b0. split; assumption.
Qed.

(* ... hence the generated run and the model's run agree on every output, and on the state wherever a read can look *)
Lemma source_matches_model : forall c fill ops, 1 <= c -> wf_hist_e (sinit c fill) ops = true ->
  exists b0, g_init c fill = MOk b0 /\
    snd (g_run b0 ops) = snd (run (binit c fill) ops) /\
    (let g := fst (g_run b0 ops) in let m := fst (run (binit c fill) ops) in
     cap g = cap m /\ S g = S m /\ ilb g = ilb m /\ fillv g = fillv m /\ zlen (buf g) = zlen (buf m) /\
     skipn (Z.to_nat (ilb m)) (buf g) = skipn (Z.to_nat (ilb m)) (buf m)).
Proof.
  intros c fill ops Hc W.
  destruct (source_refines_spec_e c fill ops Hc W) as (b0 & H0 & H1 & Rg).
  destruct (refines_spec_e c fill ops Hc W) as [H2 Rm].
  exists b0. split; [exact H0|]. split; [congruence|]. cbv zeta.
  destruct Rg as [Gcap Gcap1 GS Gilb Glen Glo Glo0 Gfill Gtail].
  destruct Rm as [Mcap Mcap1 MS Milb Mlen Mlo Mlo0 Mfill Mtail].
  assert (Ei : ilb (fst (g_run b0 ops)) = ilb (fst (run (binit c fill) ops))) by lia.
  repeat split; try lia; try congruence.
Qed.

(* C14_bounds over the generated getters *)
Lemma source_bounds : forall c fill ops b0 b, 1 <= c -> wf_hist_e (sinit c fill) ops = true ->
  g_init c fill = MOk b0 -> fst (g_run b0 ops) = b ->
  0 <= g_get_samples_lb b <= g_get_samples_ub b /\ g_get_samples_ub b - g_get_samples_lb b <= cap b /\
  g_get_samples_ub b = slen (fst (spec_run (sinit c fill) ops)) /\
  g_get_samples_lb b = lo (fst (spec_run (sinit c fill) ops)) /\
  zlen (buf b) = cap b /\ 0 <= ilb b <= cap b /\ 1 <= cap b.
Proof.
  intros c fill ops b0 b Hc W H0 E.
  destruct (source_refines_spec_e c fill ops Hc W) as (b0' & H0' & _ & R).
  assert (b0' = b0) by congruence. subst b0'. rewrite E in R.
  destruct R as [Rcap Rcap1 RS Rilb Rlen Rlo Rlo0 Rfill Rtail].
  rewrite tie_samples_lb, tie_samples_ub. unfold samples_lb, samples_ub, slen. lia.
Qed.

Example source_ex : 1 <= 3 /\
  wf_hist (sinit 3 (-1)) [Append [1;2]; Append [3;4;5;6]; Invalidate 5; Resize 5; Append [7];
                          ReadS None None; ReadFilled 0 8 9; Bounds] = true /\
  g_init 3 (-1) = MOk (binit 3 (-1)) /\
  snd (g_run (binit 3 (-1)) [Append [1;2]; Append [3;4;5;6]; Invalidate 5; Resize 5; Append [7];
                             ReadS None None; ReadFilled 0 8 9; Bounds])
  = [ONone; ONone; ONone; ONone; ONone; OData [4;5;7]; OData [9;9;9;4;5;7;9;9]; OBounds 3 6].
Proof. split; [lia|]. vm_compute. repeat split; reflexivity. Qed.

Lemma out_of_res_inj (r1 r2 : res (list Z)) : out_of_res r1 = out_of_res r2 -> r1 = r2.
Proof.
  destruct r1 as [d1|[|]]; destruct r2 as [d2|[|]]; cbn [out_of_res out_of_exc]; intros H;
    try discriminate H; try reflexivity. injection H as H. subst. reflexivity.
Qed.

(* C14_read_is_stream_slice over the generated reads, on the state the generated run reaches: a range read returns
   exactly samples [a, e) of the logical stream (a function of the history alone) inside the reported bounds and
   raises IndexError otherwise; a filled read pads exactly what lies outside *)
Lemma source_read_is_stream_slice : forall c fill ops b0 b, 1 <= c -> wf_hist_e (sinit c fill) ops = true ->
  g_init c fill = MOk b0 -> fst (g_run b0 ops) = b ->
  g_get_samples_ub b = zlen (logical ops) /\
  (forall a e, a <= e ->
     g_get_range_samples b (Some a) (Some e) =
     if (g_get_samples_lb b <=? a) && (e <=? g_get_samples_ub b) then Ret (slice (logical ops) a e)
     else Raise EIndexError) /\
  (forall a e f, a <= e ->
     g_get_range_filled b a e f =
     Ret (zrange (sample_or (logical ops) (g_get_samples_lb b) (g_get_samples_ub b) f) a (e - a))).
Proof.
  intros c fill ops b0 b Hc W H0 E.
  destruct (source_refines_spec_e c fill ops Hc W) as (b0' & H0' & _ & R).
  assert (b0' = b0) by congruence. subst b0'. rewrite E in R.
  pose proof (spec_stream_logical c fill ops) as HL.
  set (s := fst (spec_run (sinit c fill) ops)) in *.
  rewrite tie_samples_lb, tie_samples_ub, (Rel_lb b s R), (Rel_ub b s R). split; [|split].
  - unfold slen. rewrite HL. reflexivity.
  - intros a e Hae. apply out_of_res_inj. rewrite tie_get_range_samples, (read_samples b s a e R Hae).
    unfold spec_read, swindow, slice. rewrite HL.
    destruct ((lo s <=? a) && (e <=? slen s)); reflexivity.
  - intros a e f Hae. apply out_of_res_inj. rewrite tie_get_range_filled, (read_filled b s a e f R Hae).
    cbn [out_of_res]. f_equal.
    unfold zrange. apply zr_ext. intros i _. rewrite sget_sample_or, HL. reflexivity.
Qed.

Example source_read_ex : 1 <= 3 /\ wf_hist_e (sinit 3 0) [Append [1;2]; Invalidate 1; Append []; Append [3;4;5]] = true /\
  g_init 3 0 = MOk (binit 3 0) /\
  g_get_range_samples (fst (g_run (binit 3 0) [Append [1;2]; Invalidate 1; Append []; Append [3;4;5]])) (Some 2) (Some 4)
    = Ret [4; 5].
Proof. split; [lia|]. vm_compute. repeat split; reflexivity. Qed.
