(* Helpers for the translator tie of psiaudio.buffer.SignalBuffer:
     translate/pybuffer2coq.py  ->  coq/gen/BufferStepGen.v  (definitions `g_*`, regenerated from the source on every run)
     coq/Buffer/ProofsTie.v     :   the generated definitions equal the hand-written model (Buffer/Model.v).
   Definitions only.  What is modelled here is library behaviour the translator maps source constructs to:
   exceptions as values, the object as the record `bstate` of Buffer/Model.v, NumPy slice assignment / np.full / np.pad. *)
From PV Require Export Common.PySlice Buffer.Model.
Open Scope Z_scope.

Inductive exc := EIndexError | EValueError.

(* result of a call that does not change the object *)
Inductive res (A : Type) := Ret (a : A) | Raise (e : exc).
Arguments Ret {A} a.
Arguments Raise {A} e.

(* result of a method that changes the object: the object afterwards, and the exception if one escaped
   (the object then is as the statements before the raise left it) *)
Inductive mres := MOk (self : bstate) | MRaise (e : exc) (self : bstate).

Definition rbind {A B} (r : res A) (k : A -> res B) : res B :=
  match r with Ret a => k a | Raise e => Raise e end.
Definition mtry {A} (r : res A) (self : bstate) (k : A -> mres) : mres :=
  match r with Ret a => k a | Raise e => MRaise e self end.
Definition mseq (m : mres) (k : bstate -> mres) : mres :=
  match m with MOk s => k s | MRaise e s => MRaise e s end.

(* `self.<field> = v`
   Python field        record field
   _buffer_samples     cap
   _samples            S
   _ilb                ilb
   _buffer             buf
   _fill_value         fillv *)
Definition set_cap (b : bstate) (v : Z) : bstate :=
  {| cap := v; S := S b; ilb := ilb b; buf := buf b; fillv := fillv b |}.
Definition set_S (b : bstate) (v : Z) : bstate :=
  {| cap := cap b; S := v; ilb := ilb b; buf := buf b; fillv := fillv b |}.
Definition set_ilb (b : bstate) (v : Z) : bstate :=
  {| cap := cap b; S := S b; ilb := v; buf := buf b; fillv := fillv b |}.
Definition set_buf (b : bstate) (v : list Z) : bstate :=
  {| cap := cap b; S := S b; ilb := ilb b; buf := v; fillv := fillv b |}.
Definition set_fillv (b : bstate) (v : Z) : bstate :=
  {| cap := cap b; S := S b; ilb := ilb b; buf := buf b; fillv := v |}.

(* the object before __init__ has assigned anything (the translator checks that __init__ assigns every field) *)
Definition new_object : bstate := {| cap := 0; S := 0; ilb := 0; buf := []; fillv := 0 |}.

(* np.full(n, v): ValueError on a negative length *)
Definition np_full (n v : Z) : res (list Z) :=
  if n <? 0 then Raise EValueError else Ret (repeat v (Z.to_nat n)).

(* x[start:stop] = src (unit step, src an array): the lengths must agree, except that a length-1 source is broadcast;
   NumPy copies an overlapping source first *)
Definition np_set_slice {A} (start stop : option Z) (src l : list A) : res (list A) :=
  let n := zlen l in
  let lo := py_lo n start in
  let hi := py_hi n stop in
  if zlen src =? Z.max 0 (hi - lo) then
    Ret (firstn (Z.to_nat lo) l ++ src ++ skipn (Z.to_nat (Z.max lo hi)) l)
  else match src with
       | [v] => Ret (py_set_const start stop v l)
       | _ => Raise EValueError
       end.

(* np.pad(data, (lpad, rpad), 'constant', constant_values=fill): ValueError on a negative pad width *)
Definition np_pad (data : list Z) (lpad rpad fill : Z) : res (list Z) :=
  if (lpad <? 0) || (rpad <? 0) then Raise EValueError
  else Ret (repeat fill (Z.to_nat lpad) ++ data ++ repeat fill (Z.to_nat rpad)).

(* how the outcome of a call is observed (the `out` of Buffer/Model.v) *)
Definition out_of_exc (e : exc) : out :=
  match e with EIndexError => OIndexError | EValueError => OValueError end.
Definition out_of_res (r : res (list Z)) : out :=
  match r with Ret d => OData d | Raise e => out_of_exc e end.
Definition step_of_mres (m : mres) : bstate * out :=
  match m with MOk s => (s, ONone) | MRaise e s => (s, out_of_exc e) end.
