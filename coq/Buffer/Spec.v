(* Abstract specification of SignalBuffer: the logical stream, the index of the oldest
   retained sample, and the capacity.  No ring, no index arithmetic. *)
From PV Require Export Buffer.Model.

Record spec := { stream : list Z; lo : Z; scap : Z; sfill : Z }.

Definition sinit (c fill : Z) : spec := {| stream := []; lo := 0; scap := c; sfill := fill |}.

Definition slen (s : spec) : Z := zlen (stream s).

(* element i of the logical stream if retained, else the fill value *)
Definition sget (s : spec) (fill : Z) (i : Z) : Z :=
  if (lo s <=? i) && (i <? slen s) then nth (Z.to_nat i) (stream s) 0 else fill.

Definition swindow (s : spec) (a b : Z) : list Z :=
  firstn (Z.to_nat (b - a)) (skipn (Z.to_nat a) (stream s)).

Definition spec_step (s : spec) (o : op) : spec :=
  match o with
  | Append d =>
    let st := stream s ++ d in
    {| stream := st; lo := Z.max (lo s) (zlen st - scap s); scap := scap s; sfill := sfill s |}
  | Invalidate i =>
    if i >=? slen s then s
    else {| stream := firstn (Z.to_nat i) (stream s); lo := Z.min (lo s) i; scap := scap s; sfill := sfill s |}
  | Resize m =>
    {| stream := stream s; lo := Z.max (lo s) (slen s - m); scap := m; sfill := sfill s |}
  | _ => s
  end.

Definition spec_read (s : spec) (a b : Z) : out :=
  if (lo s <=? a) && (b <=? slen s) then OData (swindow s a b) else OIndexError.

Definition spec_out (s : spec) (o : op) : out :=
  match o with
  | Append _ | Invalidate _ | Resize _ => ONone
  | ReadS lb ub =>
    spec_read s (match lb with None => lo s | Some x => x end)
                (match ub with None => slen s | Some x => x end)
  | ReadFilled a b f => OData (zrange (sget s f) a (b - a))
  | Latest a b None => spec_read s (a + slen s) (b + slen s)
  | Latest a b (Some f) => OData (zrange (sget s f) (a + slen s) (b - a))
  | Bounds => OBounds (lo s) (slen s)
  end.

Fixpoint spec_run (s : spec) (ops : list op) : spec * list out :=
  match ops with
  | [] => (s, [])
  | o :: t => let '(s2, rs) := spec_run (spec_step s o) t in (s2, spec_out s o :: rs)
  end.

(* operations the property quantifies over: appends of >= 1 sample, invalidation at a sample
   index >= 0, resize to >= 1 sample, reads with lower <= upper *)
Definition wf_op (o : op) : bool :=
  match o with
  | Append d => match d with [] => false | _ => true end
  | Invalidate i => 0 <=? i
  | Resize m => 1 <=? m
  | ReadS (Some a) (Some b) => a <=? b
  | ReadS _ _ => true
  | ReadFilled a b _ => a <=? b
  | Latest a b _ => a <=? b
  | Bounds => true
  end.

(* ReadS with one explicit bound can still cross (e.g. lb given beyond the upper bound);
   the history-level well-formedness checks that against the spec state *)
Definition wf_at (s : spec) (o : op) : bool :=
  wf_op o &&
  match o with
  | ReadS (Some a) None => a <=? slen s
  | ReadS None (Some b) => lo s <=? b
  | _ => true
  end.
Fixpoint wf_hist (s : spec) (ops : list op) : bool :=
  match ops with
  | [] => true
  | o :: t => wf_at s o && wf_hist (spec_step s o) t
  end.

Definition check_spec (c fill : Z) (ops : list op) : bool :=
  negb (wf_hist (sinit c fill) ops) ||
  eqb_list eqb_out (snd (run (binit c fill) ops)) (snd (spec_run (sinit c fill) ops)).

(* ====================================================================================
   Additions of the coverage audit (nothing above is changed; no proof depends on what follows).

   samples_to_index / time_to_index called directly after a history: the public index
   translation of the state the history leads to (reads do not change the state). *)
Definition check_index (c fill : Z) (ops : list op) (q : Z * Z) : bool :=
  samples_to_index (fst (run (binit c fill) ops)) (fst q) =? snd q.

(* what the abstract specification says about the same translation: the newest sample sits at
   the right end of a store of `scap` slots *)
Definition spec_index (s : spec) (i : Z) : Z := i - slen s + scap s.
Definition check_spec_index (c fill : Z) (ops : list op) (q : Z * Z) : bool :=
  negb (wf_hist (sinit c fill) ops) ||
  (spec_index (fst (spec_run (sinit c fill) ops)) (fst q) =? snd q).

(* one generated case: the history literal appears once; `gots` = the observed outputs per channel,
   `idx` = (sample, buffer index) pairs observed after the history *)
Definition check_case (c fill : Z) (ops : list op) (gots : list (list out)) (idx : list (Z * Z)) : bool :=
  forallb (check_run c fill ops) gots && check_spec c fill ops &&
  forallb (check_index c fill ops) idx && forallb (check_spec_index c fill ops) idx.
