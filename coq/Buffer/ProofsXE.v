(* C14 extension: zero-length appends (psiaudio commit 0eafd08: append_data returns at once on an
   empty chunk).  The model's `append` already is a no-op on [] - it describes the repaired code -
   but Spec.wf_op excludes `Append []`.  Definitions and proofs; add-only, stdlib only, no axioms. *)
From Coq Require Import ZArith List Bool Lia ZifyBool.
From PV Require Import Buffer.Model Buffer.Spec Buffer.Proofs Buffer.SpecX Buffer.ProofsX.
Import ListNotations.
Open Scope Z_scope.

(* ------------------------------------------------------------------ *)
(* definitions                                                         *)
(* ------------------------------------------------------------------ *)
Definition is_empty_append (o : op) : bool :=
  match o with Append [] => true | _ => false end.

(* wf_hist_x plus empty appends anywhere *)
Definition wf_at_e (s : spec) (o : op) : bool := is_empty_append o || wf_at_x s o.
Fixpoint wf_hist_e (s : spec) (ops : list op) : bool :=
  match ops with
  | [] => true
  | o :: t => wf_at_e s o && wf_hist_e (spec_step s o) t
  end.

(* the history without its empty appends, and the outputs without the (None) results of those calls *)
Definition drop_empty (ops : list op) : list op := filter (fun o => negb (is_empty_append o)) ops.
Fixpoint drop_outs (ops : list op) (outs : list out) : list out :=
  match ops, outs with
  | o :: t, r :: rs => if is_empty_append o then drop_outs t rs else r :: drop_outs t rs
  | _, _ => []
  end.

(* ------------------------------------------------------------------ *)
(* an empty append changes nothing                                     *)
(* ------------------------------------------------------------------ *)
Lemma append_empty (b : bstate) : 0 <= cap b -> 0 <= ilb b -> append b [] = b.
Proof.
  intros Hc Hi. destruct b as [c s i bf f]. cbn [cap ilb] in Hc, Hi.
  unfold append. cbv zeta. cbn [cap S ilb buf fillv].
  change (zlen (@nil Z)) with 0.
  destruct (0 >? c) eqn:E; [lia|].
  rewrite Z.add_0_r, Z.sub_0_r, Z.max_r by lia. rewrite app_nil_r.
  rewrite py_slice_from by (pose proof (zlen_nonneg bf); lia).
  reflexivity.
Qed.

(* the hypotheses are needed: a record with a negative valid-start index is changed *)
Lemma append_empty_unconstrained_refuted : exists b, append b [] <> b.
Proof.
  exists {| cap := 1; S := 0; ilb := -1; buf := [0]; fillv := 0 |}. vm_compute. intros H. discriminate H.
Qed.

Lemma spec_append_empty (s : spec) : slen s - lo s <= scap s -> spec_step s (Append []) = s.
Proof.
  intros H. destruct s as [st l c f]. unfold slen in H. cbn [stream lo scap] in H.
  cbn [spec_step stream lo scap sfill]. rewrite app_nil_r. rewrite Z.max_l by lia. reflexivity.
Qed.

Example append_empty_ex : 0 <= cap (binit 3 0) /\ 0 <= ilb (binit 3 0) /\
  slen (sinit 3 0) - lo (sinit 3 0) <= scap (sinit 3 0).
Proof. cbn. lia. Qed.

(* the two facts the no-op needs hold in every state any history can reach from a sane one
   (no well-formedness of the history is required) *)
Definition okb (b : bstate) : Prop := 0 <= cap b /\ 0 <= ilb b.

Lemma okb_step (b : bstate) (o : op) : okb b -> okb (fst (step b o)).
Proof.
  intros [Hc Hi]. destruct o as [d|i|m|lb ub|a e f|a e f|]; cbn [step fst]; try (split; assumption).
  - unfold append, okb. cbv zeta. destruct (zlen d >? cap b); cbn [cap ilb]; lia.
  - unfold invalidate_samples, invalidate_samples_gen, okb.
    destruct (i >=? S b) eqn:E1; [split; assumption|]. cbv zeta.
    unfold invalidate_idx, samples_to_index.
    destruct (i - S b + cap b <=? ilb b) eqn:E2; cbn [cap ilb S]; lia.
  - unfold resize, okb. destruct (get_latest b (- m) 0 (Some (fillv b))); try (split; assumption).
    cbv zeta. cbn [cap ilb]. pose proof (zlen_nonneg d). lia.
Qed.

Lemma okb_init (c fill : Z) : 1 <= c -> okb (binit c fill).
Proof. intros H. unfold okb. cbn [binit cap ilb]. lia. Qed.

(* Deleting the empty appends from ANY history (well-formed or not), started in any sane state,
   changes neither the final state nor any other output *)
Lemma drop_empty_same : forall (ops : list op) (b : bstate), okb b ->
  fst (run b (drop_empty ops)) = fst (run b ops) /\
  snd (run b (drop_empty ops)) = drop_outs ops (snd (run b ops)).
Proof.
  induction ops as [|o t IH]; intros b Hb; [split; reflexivity|].
  destruct (is_empty_append o) eqn:Eo.
  - assert (Ho : o = Append []).
    { destruct o as [d| | | | | |]; try discriminate Eo. destruct d; [reflexivity|discriminate Eo]. }
    subst o. unfold drop_empty. cbn [filter is_empty_append negb]. fold (drop_empty t).
    cbn [run step]. destruct Hb as [Hc Hi]. rewrite (append_empty b Hc Hi).
    destruct (IH b (conj Hc Hi)) as [IH1 IH2].
    destruct (run b t) as [b2 rs] eqn:Er. cbn [fst snd drop_outs is_empty_append] in *.
    split; assumption.
  - unfold drop_empty. cbn [filter]. rewrite Eo. cbn [negb]. fold (drop_empty t).
    cbn [run]. pose proof (okb_step b o Hb) as Hb1.
    destruct (step b o) as [b1 r] eqn:Es. cbn [fst] in Hb1.
    destruct (IH b1 Hb1) as [IH1 IH2].
    destruct (run b1 (drop_empty t)) as [b2 rs] eqn:Er1.
    destruct (run b1 t) as [b3 rs'] eqn:Er2. cbn [fst snd drop_outs] in *. rewrite Eo.
    split; [exact IH1|]. rewrite IH2. reflexivity.
Qed.

(* ------------------------------------------------------------------ *)
(* refinement for histories with empty appends anywhere                *)
(* ------------------------------------------------------------------ *)
Lemma Rel_okb (b : bstate) (s : spec) : Rel b s -> okb b /\ slen s - lo s <= scap s.
Proof.
  intros R. destruct R as [Rcap Rcap1 RS Rilb Rlen Rlo Rlo0 Rfill Rtail]. unfold okb, slen. lia.
Qed.

Lemma step_sim_e (b : bstate) (s : spec) (o : op) : Rel b s -> wf_at_e s o = true ->
  Rel (fst (step b o)) (spec_step s o) /\ snd (step b o) = spec_out s o.
Proof.
  intros R W. unfold wf_at_e in W. apply orb_true_iff in W. destruct W as [W|W].
  - assert (Ho : o = Append []).
    { destruct o as [d| | | | | |]; try discriminate W. destruct d; [reflexivity|discriminate W]. }
    subst o. destruct (Rel_okb b s R) as [[Hc Hi] Hs].
    cbn [step fst snd spec_out]. rewrite (append_empty b Hc Hi), (spec_append_empty s Hs).
    split; [exact R|reflexivity].
  - apply step_sim_x; assumption.
Qed.

Lemma run_sim_e : forall (ops : list op) (b : bstate) (s : spec), Rel b s -> wf_hist_e s ops = true ->
  Rel (fst (run b ops)) (fst (spec_run s ops)) /\ snd (run b ops) = snd (spec_run s ops).
Proof.
  induction ops as [|o t IH]; intros b s R W.
  - cbn [run spec_run fst snd]. split; [exact R|reflexivity].
  - cbn [wf_hist_e] in W. apply andb_true_iff in W. destruct W as [W1 W2].
    destruct (step_sim_e b s o R W1) as [R1 O1].
    specialize (IH (fst (step b o)) (spec_step s o) R1 W2). destruct IH as [R2 O2].
    cbn [run spec_run].
    destruct (step b o) as [b1 r] eqn:Es. cbn [fst snd] in *.
    destruct (run b1 t) as [b2 rs] eqn:Er.
    destruct (spec_run (spec_step s o) t) as [s2 rs'] eqn:Esr.
    cbn [fst snd] in *. split; [exact R2|]. rewrite O1, O2. reflexivity.
Qed.

Lemma wf_hist_x_wf_hist_e : forall ops s, wf_hist_x s ops = true -> wf_hist_e s ops = true.
Proof.
  induction ops as [|o t IH]; intros s W; [reflexivity|].
  cbn [wf_hist_x wf_hist_e] in *. apply andb_true_iff in W. destruct W as [W1 W2].
  apply andb_true_iff. split; [|apply IH; exact W2]. unfold wf_at_e. rewrite W1. apply orb_true_r.
Qed.

Lemma refines_spec_e : forall c fill ops, 1 <= c -> wf_hist_e (sinit c fill) ops = true ->
  snd (run (binit c fill) ops) = snd (spec_run (sinit c fill) ops) /\
  Rel (fst (run (binit c fill) ops)) (fst (spec_run (sinit c fill) ops)).
Proof.
  intros c fill ops Hc W.
  destruct (run_sim_e ops (binit c fill) (sinit c fill) (Rel_init c fill Hc) W) as [R O].
  split; assumption.
Qed.

Lemma refines_spec_e_out : forall c fill ops, 1 <= c -> wf_hist_e (sinit c fill) ops = true ->
  snd (run (binit c fill) ops) = snd (spec_run (sinit c fill) ops).
Proof. intros c fill ops Hc W. apply (refines_spec_e c fill ops Hc W). Qed.

(* the state-level statement used by Props/C14.v *)
Lemma empty_append_noop :
  (forall b, 0 <= cap b -> 0 <= ilb b -> append b [] = b) /\
  (forall s, slen s - lo s <= scap s -> spec_step s (Append []) = s) /\
  (forall c fill ops, 1 <= c -> wf_hist_e (sinit c fill) ops = true ->
     step (fst (run (binit c fill) ops)) (Append []) = (fst (run (binit c fill) ops), ONone) /\
     spec_step (fst (spec_run (sinit c fill) ops)) (Append []) = fst (spec_run (sinit c fill) ops)).
Proof.
  split; [exact append_empty|]. split; [exact spec_append_empty|].
  intros c fill ops Hc W. destruct (refines_spec_e c fill ops Hc W) as [_ R].
  destruct (Rel_okb _ _ R) as [[H1 H2] H3]. cbn [step].
  rewrite (append_empty _ H1 H2), (spec_append_empty _ H3). split; reflexivity.
Qed.

Lemma drop_empty_skip : forall c fill ops, 1 <= c ->
  fst (run (binit c fill) (drop_empty ops)) = fst (run (binit c fill) ops) /\
  snd (run (binit c fill) (drop_empty ops)) = drop_outs ops (snd (run (binit c fill) ops)) /\
  forallb (fun o => negb (is_empty_append o)) (drop_empty ops) = true.
Proof.
  intros c fill ops Hc. destruct (drop_empty_same ops (binit c fill) (okb_init c fill Hc)) as [H1 H2].
  split; [exact H1|]. split; [exact H2|].
  unfold drop_empty. apply forallb_forall. intros o Ho. apply filter_In in Ho. apply Ho.
Qed.

Example refines_spec_e_ex : 1 <= 3 /\
  wf_hist_x (sinit 3 0) [Append []; Append [1;2;3;4]; Invalidate 3; Append []; ReadS None None] = false /\
  wf_hist_e (sinit 3 0) [Append []; Append [1;2;3;4]; Invalidate 3; Append []; ReadS None None] = true /\
  snd (run (binit 3 0) [Append []; Append [1;2;3;4]; Invalidate 3; Append []; ReadS None None])
    = [ONone; ONone; ONone; ONone; OData [2; 3]] /\
  drop_empty [Append []; Append [1;2;3;4]; Invalidate 3; Append []; ReadS None None]
    = [Append [1;2;3;4]; Invalidate 3; ReadS None None].
Proof. vm_compute. repeat split; reflexivity || lia || congruence. Qed.

(* ---- checks used by the generated correspondence files for histories with empty appends ----
   (tests of the two theorems above on the very history the implementation was driven with) *)
Definition check_spec_e (c fill : Z) (ops : list op) : bool :=
  negb (wf_hist_e (sinit c fill) ops) ||
  eqb_list eqb_out (snd (run (binit c fill) ops)) (snd (spec_run (sinit c fill) ops)).
Definition check_skip_e (c fill : Z) (ops : list op) : bool :=
  eqb_list eqb_out (snd (run (binit c fill) (drop_empty ops)))
                   (drop_outs ops (snd (run (binit c fill) ops))).
Definition check_case_e (c fill : Z) (ops : list op) (gots : list (list out)) (idx : list (Z * Z)) : bool :=
  check_case c fill ops gots idx && check_spec_e c fill ops && check_skip_e c fill ops.
